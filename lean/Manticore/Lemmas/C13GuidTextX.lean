/-
  Helper lemmas for C13: the GUID text format X, `{0x…,0x…,0x…,{0x..,…,0x..}}`.
-/
import Manticore.Lemmas.C13GuidText
namespace Manticore.C13
open Manticore

/-- `0x` followed by `w` hex digits -/
def zxh (w n : Nat) : Bytes := 48 :: 120 :: fixedHex w n

/-- the text between the outer brace and the inner brace: `0xA,0xB,0xC,` -/
def xHead (a b c : Nat) : Bytes := zxh 8 a ++ comma :: (zxh 4 b ++ comma :: (zxh 4 c ++ [comma]))

/-- the text inside the inner braces: `0x..,` … `,0x..` -/
def xTail (d0 d1 e0 e1 e2 e3 e4 e5 : Nat) : Bytes :=
  zxh 2 d0 ++ comma :: (zxh 2 d1 ++ comma :: (zxh 2 e0 ++ comma :: (zxh 2 e1 ++ comma :: (zxh 2 e2 ++ comma ::
    (zxh 2 e3 ++ comma :: (zxh 2 e4 ++ comma :: zxh 2 e5))))))

def xText (a b c d0 d1 e0 e1 e2 e3 e4 e5 : Nat) : Bytes :=
  lbrace :: (xHead a b c ++ lbrace :: (xTail d0 d1 e0 e1 e2 e3 e4 e5 ++ [rbrace, rbrace]))

theorem render_patX (a b c d0 d1 e0 e1 e2 e3 e4 e5 : Nat) :
    render patX [a, b, c, d0, d1, e0, e1, e2, e3, e4, e5] = xText a b c d0 d1 e0 e1 e2 e3 e4 e5 := by
  simp [render, patX, xText, xHead, xTail, zxh, zx]

theorem fits_patX (vs : List Nat) (h : Fits patX vs) :
    ∃ a b c d0 d1 e0 e1 e2 e3 e4 e5, vs = [a, b, c, d0, d1, e0, e1, e2, e3, e4, e5] ∧ a < 16 ^ 8 ∧ b < 16 ^ 4 ∧ c < 16 ^ 4 ∧
      d0 < 256 ∧ d1 < 256 ∧ e0 < 256 ∧ e1 < 256 ∧ e2 < 256 ∧ e3 < 256 ∧ e4 < 256 ∧ e5 < 256 := by
  match vs, h with
  | [], h => simp [patX, Fits] at h
  | [_], h => simp [patX, Fits] at h
  | [_, _], h => simp [patX, Fits] at h
  | [_, _, _], h => simp [patX, Fits] at h
  | [_, _, _, _], h => simp [patX, Fits] at h
  | [_, _, _, _, _], h => simp [patX, Fits] at h
  | [_, _, _, _, _, _], h => simp [patX, Fits] at h
  | [_, _, _, _, _, _, _], h => simp [patX, Fits] at h
  | [_, _, _, _, _, _, _, _], h => simp [patX, Fits] at h
  | [_, _, _, _, _, _, _, _, _], h => simp [patX, Fits] at h
  | [_, _, _, _, _, _, _, _, _, _], h => simp [patX, Fits] at h
  | [a, b, c, d0, d1, e0, e1, e2, e3, e4, e5], h =>
    simp only [patX, Fits, pow16_2] at h
    exact ⟨a, b, c, d0, d1, e0, e1, e2, e3, e4, e5, rfl, h.1, h.2.1, h.2.2.1, h.2.2.2.1, h.2.2.2.2.1, h.2.2.2.2.2.1,
      h.2.2.2.2.2.2.1, h.2.2.2.2.2.2.2.1, h.2.2.2.2.2.2.2.2.1, h.2.2.2.2.2.2.2.2.2.1, h.2.2.2.2.2.2.2.2.2.2.1⟩
  | _ :: _ :: _ :: _ :: _ :: _ :: _ :: _ :: _ :: _ :: _ :: _ :: _, h => simp [patX, Fits] at h

theorem fits_patX_of (a b c d0 d1 e0 e1 e2 e3 e4 e5 : Nat) (ha : a < 16 ^ 8) (hb : b < 16 ^ 4) (hc : c < 16 ^ 4)
    (h0 : d0 < 256) (h1 : d1 < 256) (g0 : e0 < 256) (g1 : e1 < 256) (g2 : e2 < 256) (g3 : e3 < 256) (g4 : e4 < 256)
    (g5 : e5 < 256) : Fits patX [a, b, c, d0, d1, e0, e1, e2, e3, e4, e5] := by
  simp only [patX, Fits, pow16_2]; exact ⟨ha, hb, hc, h0, h1, g0, g1, g2, g3, g4, g5, trivial⟩

/-! #### removing the braces, splitting at the commas -/

private theorem mem_zxh (w n : Nat) (c : UInt8) (h : c ∈ zxh w n) : c = 48 ∨ c = 120 ∨ isLowerHex c = true := by
  simp only [zxh, List.mem_cons] at h
  rcases h with h | h | h
  · exact Or.inl h
  · exact Or.inr (Or.inl h)
  · exact Or.inr (Or.inr (isLowerHex_of_mem_fixedHex w n c h))

private theorem zxh_no (w n : Nat) (x : UInt8) (hx : x = comma ∨ x = lbrace ∨ x = rbrace) : ∀ c ∈ zxh w n, c ≠ x := by
  intro c hc
  rcases mem_zxh w n c hc with h | h | h
  · subst h; rcases hx with rfl | rfl | rfl <;> decide
  · subst h; rcases hx with rfl | rfl | rfl <;> decide
  · rcases hx with rfl | rfl | rfl
    · exact ne_comma_of_isLowerHex c h
    · exact ne_lbrace_of_isLowerHex c h
    · exact ne_rbrace_of_isLowerHex c h

private theorem filter_zxh (w n : Nat) (x : UInt8) (hx : x = lbrace ∨ x = rbrace) :
    (zxh w n).filter (· != x) = zxh w n := by
  rw [List.filter_eq_self]
  intro c hc
  have := zxh_no w n x (by rcases hx with h | h <;> simp [h]) c hc
  simpa using this

private theorem comma_ne_lbrace : (comma != lbrace) = true := by decide
private theorem comma_ne_rbrace : (comma != rbrace) = true := by decide

theorem strip_xText (a b c d0 d1 e0 e1 e2 e3 e4 e5 : Nat) :
    removeByte rbrace (removeByte lbrace (xText a b c d0 d1 e0 e1 e2 e3 e4 e5)) =
      zxh 8 a ++ comma :: (zxh 4 b ++ comma :: (zxh 4 c ++ comma :: xTail d0 d1 e0 e1 e2 e3 e4 e5)) := by
  have hl : ∀ w n, (zxh w n).filter (· != lbrace) = zxh w n := fun w n => filter_zxh w n lbrace (Or.inl rfl)
  have hr : ∀ w n, (zxh w n).filter (· != rbrace) = zxh w n := fun w n => filter_zxh w n rbrace (Or.inr rfl)
  have e1' : (lbrace != lbrace) = false := by decide
  have e2' : (rbrace != lbrace) = true := by decide
  have e3' : (rbrace != rbrace) = false := by decide
  simp only [removeByte, xText, xHead, xTail, List.filter_cons, List.filter_append, List.filter_nil, hl, hr,
    comma_ne_lbrace, comma_ne_rbrace, e1', e2', e3', if_true, if_false, Bool.false_eq_true, List.append_nil,
    List.append_assoc, List.cons_append, List.nil_append]

theorem split_stripped (a b c d0 d1 e0 e1 e2 e3 e4 e5 : Nat) :
    split comma (zxh 8 a ++ comma :: (zxh 4 b ++ comma :: (zxh 4 c ++ comma :: xTail d0 d1 e0 e1 e2 e3 e4 e5))) =
      [zxh 8 a, zxh 4 b, zxh 4 c, zxh 2 d0, zxh 2 d1, zxh 2 e0, zxh 2 e1, zxh 2 e2, zxh 2 e3, zxh 2 e4, zxh 2 e5] := by
  have nc : ∀ w n, ∀ c ∈ zxh w n, c ≠ comma := fun w n => zxh_no w n comma (Or.inl rfl)
  unfold split xTail
  rw [split_cons_part _ _ _ (nc 8 a), split_cons_part _ _ _ (nc 4 b), split_cons_part _ _ _ (nc 4 c),
    split_cons_part _ _ _ (nc 2 d0), split_cons_part _ _ _ (nc 2 d1), split_cons_part _ _ _ (nc 2 e0),
    split_cons_part _ _ _ (nc 2 e1), split_cons_part _ _ _ (nc 2 e2), split_cons_part _ _ _ (nc 2 e3),
    split_cons_part _ _ _ (nc 2 e4), split_last_part _ _ (nc 2 e5)]

theorem xField_zxh (bits w n : Nat) (hw : 0 < w) (hb : 16 ^ w ≤ 2 ^ bits) (hn : n < 16 ^ w) :
    xField bits (zxh w n) = .ok n := by
  unfold xField zxh sliceFrom
  rw [if_pos (by simp)]
  simp only [List.drop_succ_cons, List.drop_zero]
  rw [parseUintHex_fixedHex bits w n hw hb hn]; rfl

theorem xBytes_cons (w : Nat) (rest : List Bytes) (acc : Nat) (hn : w < 256) :
    xBytes (zxh 2 w :: rest) acc = xBytes rest (acc * 256 + w) := by
  simp only [xBytes, xField_zxh 8 2 w (by decide) (by decide) (by rw [pow16_2]; exact hn)]

/-! #### the core of `FromFormatX` -/

def xCore (data : Bytes) : Outcome GUID :=
  if !matchPat patX data then .err
  else
    let data := removeByte rbrace (removeByte lbrace data)
    match split comma data with
    | [p0, p1, p2, p3, p4, p5, p6, p7, p8, p9, p10] =>
      match xField 32 p0 with
      | .err => .err
      | .panic => .panic
      | .ok a =>
      match xField 16 p1 with
      | .err => .err
      | .panic => .panic
      | .ok b =>
      match xField 16 p2 with
      | .err => .err
      | .panic => .panic
      | .ok c =>
      match xBytes [p3, p4] 0 with
      | .err => .err
      | .panic => .panic
      | .ok d =>
      match xBytes [p5, p6, p7, p8, p9, p10] 0 with
      | .err => .err
      | .panic => .panic
      | .ok e => .ok ⟨UInt32.ofNat a, UInt16.ofNat b, UInt16.ofNat c, UInt16.ofNat d, UInt64.ofNat e⟩
    | _ => .err

theorem fromFormatX_eq (s : Bytes) : fromFormatX s = xCore (toLower (trimSpace s)) := rfl

/-- the big-endian value of the two / six bytes -/
def dOf (d0 d1 : Nat) : Nat := d0 * 256 + d1
def eOf (e0 e1 e2 e3 e4 e5 : Nat) : Nat := ((((e0 * 256 + e1) * 256 + e2) * 256 + e3) * 256 + e4) * 256 + e5

theorem xCore_xText (a b c d0 d1 e0 e1 e2 e3 e4 e5 : Nat) (ha : a < 16 ^ 8) (hb : b < 16 ^ 4) (hc : c < 16 ^ 4)
    (h0 : d0 < 256) (h1 : d1 < 256) (g0 : e0 < 256) (g1 : e1 < 256) (g2 : e2 < 256) (g3 : e3 < 256) (g4 : e4 < 256)
    (g5 : e5 < 256) :
    xCore (xText a b c d0 d1 e0 e1 e2 e3 e4 e5) = .ok (guidOfValues a b c (dOf d0 d1) (eOf e0 e1 e2 e3 e4 e5)) := by
  unfold xCore
  have hm : matchPat patX (xText a b c d0 d1 e0 e1 e2 e3 e4 e5) = true := by
    rw [← render_patX]; exact matchPat_render _ _ (fits_patX_of a b c d0 d1 e0 e1 e2 e3 e4 e5 ha hb hc h0 h1 g0 g1 g2 g3 g4 g5)
  rw [hm]
  simp only [Bool.not_true, Bool.false_eq_true, if_false, strip_xText, split_stripped]
  rw [xField_zxh 32 8 a (by decide) (by decide) ha, xField_zxh 16 4 b (by decide) (by decide) hb,
    xField_zxh 16 4 c (by decide) (by decide) hc]
  have hd : xBytes [zxh 2 d0, zxh 2 d1] 0 = .ok (dOf d0 d1) := by
    rw [xBytes_cons _ _ _ h0, xBytes_cons _ _ _ h1]; simp [xBytes, dOf]
  have he : xBytes [zxh 2 e0, zxh 2 e1, zxh 2 e2, zxh 2 e3, zxh 2 e4, zxh 2 e5] 0 = .ok (eOf e0 e1 e2 e3 e4 e5) := by
    rw [xBytes_cons _ _ _ g0, xBytes_cons _ _ _ g1, xBytes_cons _ _ _ g2, xBytes_cons _ _ _ g3, xBytes_cons _ _ _ g4,
      xBytes_cons _ _ _ g5]; simp [xBytes, eOf]
  rw [hd, he]
  rfl

theorem xCore_ok (t : Bytes) (g : GUID) (h : xCore t = .ok g) :
    ∃ a b c d0 d1 e0 e1 e2 e3 e4 e5, t = xText a b c d0 d1 e0 e1 e2 e3 e4 e5 ∧
      g = guidOfValues a b c (dOf d0 d1) (eOf e0 e1 e2 e3 e4 e5) ∧ a < 16 ^ 8 ∧ b < 16 ^ 4 ∧ c < 16 ^ 4 ∧
      d0 < 256 ∧ d1 < 256 ∧ e0 < 256 ∧ e1 < 256 ∧ e2 < 256 ∧ e3 < 256 ∧ e4 < 256 ∧ e5 < 256 := by
  have hm : matchPat patX t = true := by
    unfold xCore at h
    cases hm : matchPat patX t with
    | true => rfl
    | false => rw [hm] at h; simp at h
  rw [matchPat_eq_isSome] at hm
  cases hp : parsePat patX t with
  | none => rw [hp] at hm; simp at hm
  | some vs =>
    obtain ⟨hrn, hf⟩ := parsePat_sound _ _ _ hp
    obtain ⟨a, b, c, d0, d1, e0, e1, e2, e3, e4, e5, rfl, ha, hb, hc, h0, h1, g0, g1, g2, g3, g4, g5⟩ := fits_patX vs hf
    rw [render_patX] at hrn
    subst hrn
    rw [xCore_xText a b c d0 d1 e0 e1 e2 e3 e4 e5 ha hb hc h0 h1 g0 g1 g2 g3 g4 g5] at h
    simp only [Outcome.ok.injEq] at h
    exact ⟨a, b, c, d0, d1, e0, e1, e2, e3, e4, e5, rfl, h.symm, ha, hb, hc, h0, h1, g0, g1, g2, g3, g4, g5⟩

/-! #### `ToFormatX` -/

theorem fixedHex_snoc_byte (w x y : Nat) (hy : y < 256) : fixedHex (w + 2) (x * 256 + y) = fixedHex w x ++ fixedHex 2 y := by
  rw [fixedHex_add w 2, pow16_2]
  have h1 : (x * 256 + y) / 256 = x := by omega
  have h2 : fixedHex 2 (x * 256 + y) = fixedHex 2 y := by
    rw [← fixedHex_mod 2 (x * 256 + y), pow16_2]
    have : (x * 256 + y) % 256 = y := by omega
    rw [this]
  rw [h1, h2]

theorem fixedHex4_dOf (d0 d1 : Nat) (h1 : d1 < 256) : fixedHex 4 (dOf d0 d1) = fixedHex 2 d0 ++ fixedHex 2 d1 :=
  fixedHex_snoc_byte 2 d0 d1 h1

theorem fixedHex12_eOf (e0 e1 e2 e3 e4 e5 : Nat) (g1 : e1 < 256) (g2 : e2 < 256) (g3 : e3 < 256) (g4 : e4 < 256)
    (g5 : e5 < 256) :
    fixedHex 12 (eOf e0 e1 e2 e3 e4 e5) =
      fixedHex 2 e0 ++ (fixedHex 2 e1 ++ (fixedHex 2 e2 ++ (fixedHex 2 e3 ++ (fixedHex 2 e4 ++ fixedHex 2 e5)))) := by
  unfold eOf
  rw [fixedHex_snoc_byte 10 _ e5 g5, fixedHex_snoc_byte 8 _ e4 g4, fixedHex_snoc_byte 6 _ e3 g3,
    fixedHex_snoc_byte 4 _ e2 g2, fixedHex_snoc_byte 2 _ e1 g1]
  simp

theorem dOf_lt (d0 d1 : Nat) (h0 : d0 < 256) (h1 : d1 < 256) : dOf d0 d1 < 16 ^ 4 := by
  rw [pow16_4]; unfold dOf; omega
theorem eOf_lt (e0 e1 e2 e3 e4 e5 : Nat) (g0 : e0 < 256) (g1 : e1 < 256) (g2 : e2 < 256) (g3 : e3 < 256) (g4 : e4 < 256)
    (g5 : e5 < 256) : eOf e0 e1 e2 e3 e4 e5 < 16 ^ 12 := by
  rw [pow16_12]; unfold eOf; omega

/-- `ToFormatX` of a GUID whose `D` and `E` are given by their bytes -/
theorem toFormatX_bytes (g : GUID) (d0 d1 e0 e1 e2 e3 e4 e5 : Nat)
    (h0 : d0 < 256) (h1 : d1 < 256) (g0 : e0 < 256) (g1 : e1 < 256) (g2 : e2 < 256) (g3 : e3 < 256) (g4 : e4 < 256)
    (g5 : e5 < 256) (hD : g.D.toNat = dOf d0 d1) (hE : g.E.toNat = eOf e0 e1 e2 e3 e4 e5) :
    toFormatX g = xText g.A.toNat g.B.toNat g.C.toNat d0 d1 e0 e1 e2 e3 e4 e5 := by
  have hA := g.A.toNat_lt; have hB := g.B.toNat_lt; have hC := g.C.toNat_lt
  unfold toFormatX
  simp only
  rw [fmtHexPad_of_lt 8 _ (by rw [pow16_8]; exact hA), fmtHexPad_of_lt 4 g.B.toNat (by rw [pow16_4]; exact hB),
    fmtHexPad_of_lt 4 g.C.toNat (by rw [pow16_4]; exact hC), hD, hE,
    fmtHexPad_of_lt 4 _ (dOf_lt d0 d1 h0 h1), fmtHexPad_of_lt 12 _ (eOf_lt e0 e1 e2 e3 e4 e5 g0 g1 g2 g3 g4 g5),
    fixedHex4_dOf d0 d1 h1, fixedHex12_eOf e0 e1 e2 e3 e4 e5 g1 g2 g3 g4 g5]
  have tk : ∀ (x : Nat) (r : Bytes), (fixedHex 2 x ++ r).take 2 = fixedHex 2 x := by
    intro x r; rw [List.take_append_of_le_length (by simp)]; simp [List.take_of_length_le]
  have dr : ∀ (x : Nat) (r : Bytes), (fixedHex 2 x ++ r).drop 2 = r := fun x r => List.drop_left' (by simp)
  have d4 : ∀ (x y : Nat) (r : Bytes), (fixedHex 2 x ++ (fixedHex 2 y ++ r)).drop 4 = r := by
    intro x y r
    have : (4:Nat) = 2 + 2 := rfl
    rw [this, ← List.drop_drop, dr, dr]
  have d6 : ∀ (x y z : Nat) (r : Bytes), (fixedHex 2 x ++ (fixedHex 2 y ++ (fixedHex 2 z ++ r))).drop 6 = r := by
    intro x y z r
    have : (6:Nat) = 2 + 4 := rfl
    rw [this, ← List.drop_drop, dr, d4]
  have d8 : ∀ (x y z u : Nat) (r : Bytes),
      (fixedHex 2 x ++ (fixedHex 2 y ++ (fixedHex 2 z ++ (fixedHex 2 u ++ r)))).drop 8 = r := by
    intro x y z u r
    have : (8:Nat) = 2 + 6 := rfl
    rw [this, ← List.drop_drop, dr, d6]
  have d10 : ∀ (x y z u v : Nat) (r : Bytes),
      (fixedHex 2 x ++ (fixedHex 2 y ++ (fixedHex 2 z ++ (fixedHex 2 u ++ (fixedHex 2 v ++ r))))).drop 10 = r := by
    intro x y z u v r
    have : (10:Nat) = 2 + 8 := rfl
    rw [this, ← List.drop_drop, dr, d8]
  have t2 : ∀ x : Nat, (fixedHex 2 x).take 2 = fixedHex 2 x := fun x => List.take_of_length_le (by simp)
  simp only [List.drop_zero, Nat.sub_zero, Nat.reduceSub, tk, dr, d4, d6, d8, d10, t2]
  simp [xText, xHead, xTail, zxh, zx]

end Manticore.C13
