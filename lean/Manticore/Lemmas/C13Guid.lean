/-
  Helper lemmas for C13: the mixed-endian byte layout of `guid.GUID` (`FromRawBytes` / `ToBytes`) and its
  agreement with the MS-DTYP packet.
-/
import Manticore.Lemmas.C13Nat
set_option linter.unusedSimpArgs false
namespace Manticore.C13
open Manticore

/-- the six shifts of `E` in `FromRawBytes` -/
def be48 (a b c d e f : UInt8) : UInt64 :=
  (a.toUInt64 <<< 40) ||| (b.toUInt64 <<< 32) ||| (c.toUInt64 <<< 24) ||| (d.toUInt64 <<< 16) ||| (e.toUInt64 <<< 8) ||| f.toUInt64

theorem be48_toNat (a b c d e f : UInt8) :
    (be48 a b c d e f).toNat = a.toNat * 2^40 + b.toNat * 2^32 + c.toNat * 2^24 + d.toNat * 2^16 + e.toNat * 2^8 + f.toNat := by
  have h2 := a.toNat_lt; have h3 := b.toNat_lt; have h4 := c.toNat_lt
  have h5 := d.toNat_lt; have h6 := e.toNat_lt; have h7 := f.toNat_lt
  simp only [be48, UInt64.toNat_or, UInt64.toNat_shiftLeft, UInt8.toNat_toUInt64, Nat.shiftLeft_eq]
  simp only [UInt64.toNat_ofNat, Nat.reducePow, Nat.reduceMod] at *
  rw [Nat.mod_eq_of_lt (by omega), Nat.mod_eq_of_lt (by omega), Nat.mod_eq_of_lt (by omega),
    Nat.mod_eq_of_lt (by omega), Nat.mod_eq_of_lt (by omega)]
  rw [or_eq_add_of_lt (a.toNat * 1099511627776) (b.toNat * 4294967296) 40 (by omega) (by omega)]
  rw [or_eq_add_of_lt _ (c.toNat * 16777216) 32 (by omega) (by omega)]
  rw [or_eq_add_of_lt _ (d.toNat * 65536) 24 (by omega) (by omega)]
  rw [or_eq_add_of_lt _ (e.toNat * 256) 16 (by omega) (by omega)]
  rw [or_eq_add_of_lt _ f.toNat 8 (by omega) (by omega)]

theorem fromRawBytes_cons16 (b0 b1 b2 b3 b4 b5 b6 b7 b8 b9 b10 b11 b12 b13 b14 b15 : UInt8) (rest : Bytes) :
    fromRawBytes (b0 :: b1 :: b2 :: b3 :: b4 :: b5 :: b6 :: b7 :: b8 :: b9 :: b10 :: b11 :: b12 :: b13 :: b14 :: b15 :: rest) =
      .ok { A := le32 b0 b1 b2 b3, B := le16 b4 b5, C := le16 b6 b7, D := be16 b8 b9,
            E := be48 b10 b11 b12 b13 b14 b15 } := by
  simp only [fromRawBytes, le32, le16, be16, be48, Outcome.ok.injEq, GUID.mk.injEq, true_and, and_true]
  u16_bits

theorem fromRawBytes_short (b : Bytes) (h : b.length < 16) : fromRawBytes b = .ok ⟨0, 0, 0, 0, 0⟩ := by
  unfold fromRawBytes
  split
  · simp only [List.length_cons] at h; omega
  · rfl

theorem fromRawBytes_ok (b : Bytes) : ∃ g, fromRawBytes b = .ok g := by
  unfold fromRawBytes
  split <;> exact ⟨_, rfl⟩

theorem fromRaw_toBytes (g : GUID) : fromRawBytes (toBytes g) = .ok { g with E := g.E &&& 0xFFFFFFFFFFFF } := by
  obtain ⟨A, B, C, D, E⟩ := g
  simp only [toBytes, fromRawBytes_cons16, le32, le16, be16, be48, Outcome.ok.injEq, GUID.mk.injEq]
  refine ⟨?_, ?_, ?_, ?_, ?_⟩
  · u32_bits
  · u16_bits
  · u16_bits
  · u16_bits
  · u64_bits

theorem toBytes_fromRaw (b : Bytes) (g : GUID) (hl : 16 ≤ b.length) (h : fromRawBytes b = .ok g) : toBytes g = b.take 16 := by
  obtain ⟨b0, b1, b2, b3, b4, b5, b6, b7, b8, b9, b10, b11, b12, b13, b14, b15, rest, rfl⟩ := exists_cons16 b hl
  rw [fromRawBytes_cons16] at h
  simp only [Outcome.ok.injEq] at h
  subst h
  simp only [toBytes, le32, le16, be16, be48, List.take_succ_cons, List.take_zero, List.cons.injEq, and_true]
  refine ⟨?_, ?_, ?_, ?_, ?_, ?_, ?_, ?_, ?_, ?_, ?_, ?_, ?_, ?_, ?_, ?_⟩ <;> u8_bits

theorem fromRaw_E_lt (b : Bytes) (g : GUID) (h : fromRawBytes b = .ok g) : g.E.toNat < 2 ^ 48 := by
  by_cases hl' : b.length < 16
  · rw [fromRawBytes_short b hl'] at h
    cases h
    decide
  have hl : 16 ≤ b.length := by omega
  obtain ⟨b0, b1, b2, b3, b4, b5, b6, b7, b8, b9, b10, b11, b12, b13, b14, b15, rest, rfl⟩ := exists_cons16 b hl
  rw [fromRawBytes_cons16] at h
  simp only [Outcome.ok.injEq] at h
  subst h
  simp only [be48_toNat]
  have := b10.toNat_lt; have := b11.toNat_lt; have := b12.toNat_lt
  have := b13.toNat_lt; have := b14.toNat_lt; have := b15.toNat_lt
  omega

theorem E_mask_of_lt (E : UInt64) (h : E.toNat < 2 ^ 48) : E &&& 0xFFFFFFFFFFFF = E := by
  apply UInt64.toNat_inj.mp
  rw [UInt64.toNat_and]
  have : (0xFFFFFFFFFFFF : UInt64).toNat = 2 ^ 48 - 1 := by decide
  rw [this, Nat.and_two_pow_sub_one_eq_mod, Nat.mod_eq_of_lt h]

theorem toBytes_eq_packet (g : GUID) : toBytes g = MSDTYP.packet (toSpec g) := by
  obtain ⟨A, B, C, D, E⟩ := g
  simp only [toBytes, MSDTYP.packet, toSpec, natLe, natBe, List.reverse_cons, List.reverse_nil, List.nil_append,
    List.cons_append, List.cons.injEq, and_true]
  refine ⟨?_, ?_, ?_, ?_, ?_, ?_, ?_, ?_, ?_, ?_, ?_, ?_, ?_, ?_, ?_, ?_⟩ <;>
  · apply UInt8.toNat_inj.mp
    simp [Nat.shiftRight_eq_div_pow, Nat.div_div_eq_div_mul, and_255]

/-- reading an MS-DTYP packet: `FromRawBytes` returns the library GUID of the packet's value -/
theorem fromRaw_eq_ofPacket (b0 b1 b2 b3 b4 b5 b6 b7 b8 b9 b10 b11 b12 b13 b14 b15 : UInt8) :
    fromRawBytes [b0, b1, b2, b3, b4, b5, b6, b7, b8, b9, b10, b11, b12, b13, b14, b15] =
      .ok (ofSpec (MSDTYP.ofPacket [b0, b1, b2, b3, b4, b5, b6, b7, b8, b9, b10, b11, b12, b13, b14, b15])) := by
  rw [fromRawBytes_cons16]
  simp only [Outcome.ok.injEq, ofSpec, MSDTYP.ofPacket, GUID.mk.injEq, List.take_succ_cons, List.take_zero, List.drop_succ_cons,
    List.drop_zero, leNat, beNat, List.foldl_cons, List.foldl_nil]
  have h0 := b0.toNat_lt; have h1 := b1.toNat_lt; have h2 := b2.toNat_lt; have h3 := b3.toNat_lt
  have h4 := b4.toNat_lt; have h5 := b5.toNat_lt; have h6 := b6.toNat_lt; have h7 := b7.toNat_lt
  have h8 := b8.toNat_lt; have h9 := b9.toNat_lt; have h10 := b10.toNat_lt; have h11 := b11.toNat_lt
  have h12 := b12.toNat_lt; have h13 := b13.toNat_lt; have h14 := b14.toNat_lt; have h15 := b15.toNat_lt
  refine ⟨?_, ?_, ?_, ?_, ?_⟩
  · apply UInt32.toNat_inj.mp; rw [le32_toNat]; simp; omega
  · apply UInt16.toNat_inj.mp; rw [le16_toNat]; simp; omega
  · apply UInt16.toNat_inj.mp; rw [le16_toNat]; simp; omega
  · apply UInt16.toNat_inj.mp; rw [be16_toNat]; simp; omega
  · apply UInt64.toNat_inj.mp; rw [be48_toNat]; simp; omega

end Manticore.C13
