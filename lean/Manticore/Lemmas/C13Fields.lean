/-
  Helper lemmas for C13: field packing of UUIDv1 / UUIDv2 into the 15 data bytes and back.
-/
import Manticore.Lemmas.C13Bits
set_option linter.unusedSimpArgs false
namespace Manticore.C13
open Manticore

/-! ### UUIDv1 -/

theorem v1OfUUID_v1Data (ver : UInt8) (v : V1) :
    v1OfUUID ⟨ver, v.variant, v1Data v⟩ =
      { v with time := v.time &&& 0x0FFFFFFFFFFFFFFF, clockSeq := v.clockSeq &&& 0x0FFF } := by
  obtain ⟨va, t, cs, n0, n1, n2, n3, n4, n5⟩ := v
  simp only [v1OfUUID, v1Data, be32, le32, be16, le16, V1.mk.injEq, true_and, and_true]
  constructor
  · u64_bits
  · u16_bits

theorem v1Data_v1OfUUID (u : UUID) : v1Data (v1OfUUID u) = u.data := by
  obtain ⟨ver, var, ⟨d0, d1, d2, d3, d4, d5, d6, d7, d8, d9, d10, d11, d12, d13, d14⟩⟩ := u
  simp only [v1OfUUID, v1Data, be32, le32, be16, le16, Data15.mk.injEq, true_and, and_true]
  refine ⟨?_, ?_, ?_, ?_, ?_, ?_, ?_, ?_, ?_⟩ <;> u8_bits

/-! ### UUIDv2 -/

theorem v2OfUUID_v2Data (ver : UInt8) (v : V2) :
    v2OfUUID ⟨ver, v.variant, v2Data v⟩ =
      { v with time := v.time &&& 0x0FFFFFFF00000000, clock := v.clock &&& 0x0F } := by
  obtain ⟨va, ldn, t, cl, ld, n0, n1, n2, n3, n4, n5⟩ := v
  simp only [v2OfUUID, v2Data, be32, le32, be16, le16, V2.mk.injEq, true_and, and_true]
  refine ⟨?_, ?_, ?_⟩
  · u32_bits
  · u64_bits
  · u8_bits

theorem v2Data_v2OfUUID (u : UUID) : v2Data (v2OfUUID u) = u.data := by
  obtain ⟨ver, var, ⟨d0, d1, d2, d3, d4, d5, d6, d7, d8, d9, d10, d11, d12, d13, d14⟩⟩ := u
  simp only [v2OfUUID, v2Data, be32, le32, be16, le16, Data15.mk.injEq, true_and, and_true]
  refine ⟨?_, ?_, ?_, ?_, ?_, ?_, ?_, ?_⟩ <;> u8_bits

end Manticore.C13
