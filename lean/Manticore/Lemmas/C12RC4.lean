/-
  C12 helper lemmas — RC4: the `uint8` model simulates the textbook algorithm on naturals mod 256.
-/
import Manticore.Model.C12
namespace Manticore.C12.RC4
open Manticore

/-- the permutation of naturals represented by an S-box of bytes -/
def toPerm (s : SBox) : Spec.Perm := s.map UInt8.toNat

theorem get_toPerm (s : SBox) (n : Nat) : Spec.get (toPerm s) n = (sAt s (UInt8.ofNat n)).toNat := by
  simp [Spec.get, toPerm, sAt, UInt8.toNat_ofNat']

theorem get_toPerm' (s : SBox) (x : UInt8) : Spec.get (toPerm s) x.toNat = (sAt s x).toNat := by
  rw [get_toPerm, UInt8.ofNat_toNat]

theorem swap_toPerm (s : SBox) (a b : Nat) :
    Spec.swap (toPerm s) a b = toPerm (swap s (UInt8.ofNat a) (UInt8.ofNat b)) := by
  apply Vector.ext
  intro k hk
  simp only [Spec.swap, swap, get_toPerm]
  simp only [toPerm, Vector.getElem_set, Vector.getElem_map, UInt8.toNat_ofNat', Nat.reducePow]
  split
  · rfl
  · split <;> rfl

theorem swap_toPerm' (s : SBox) (a b : UInt8) :
    Spec.swap (toPerm s) a.toNat b.toNat = toPerm (swap s a b) := by
  rw [swap_toPerm, UInt8.ofNat_toNat, UInt8.ofNat_toNat]

theorem identity_toPerm : toPerm identity = Vector.ofFn (fun k : Fin 256 => k.val) := by
  apply Vector.ext
  intro k hk
  simp [toPerm, identity]

/-- the key-scheduling loops agree step by step -/
theorem ksa_sim (key : Bytes) (hk : 0 < key.length) :
    ∀ (l : List (Fin 256)) (i : Nat) (s : SBox) (j : UInt8),
      l.map Fin.val = List.range' i l.length →
      Spec.ksaLoop key hk l.length i (toPerm s, j.toNat) =
        (toPerm (l.foldl (ksaStep key hk) (s, j)).1, (l.foldl (ksaStep key hk) (s, j)).2.toNat) := by
  intro l
  induction l with
  | nil => intro i s j _; rfl
  | cons x xs ih =>
    intro i s j h
    simp only [List.map_cons, List.length_cons, List.range'_succ, List.cons.injEq] at h
    obtain ⟨hx, hxs⟩ := h
    simp only [List.length_cons, Spec.ksaLoop, List.foldl_cons]
    have hi : i < 256 := by rw [← hx]; exact x.isLt
    have hj : (j.toNat + Spec.get (toPerm s) i + (key[i % key.length]'(Nat.mod_lt _ hk)).toNat) % 256
        = (ksaStep key hk (s, j) x).2.toNat := by
      subst hx
      simp only [ksaStep, UInt8.toNat_add, Nat.reducePow, get_toPerm, sAt, UInt8.toNat_ofNat',
        Nat.mod_eq_of_lt hi]
      omega
    rw [hj]
    have hs : Spec.swap (toPerm s) i (ksaStep key hk (s, j) x).2.toNat = toPerm (ksaStep key hk (s, j) x).1 := by
      subst hx
      rw [swap_toPerm, UInt8.ofNat_toNat]
      rfl
    rw [hs]
    exact ih (i+1) _ _ hxs

theorem finRange_vals : (List.finRange 256).map Fin.val = List.range' 0 256 := by
  apply List.ext_getElem
  · simp
  · intro i h1 h2; simp

theorem ofNat_mod (n : Nat) : UInt8.ofNat (n % 256) = UInt8.ofNat n := by
  apply UInt8.toNat_inj.mp
  simp [UInt8.toNat_ofNat']

theorem ksa_eq_spec (key : Bytes) (hk : 0 < key.length) : Spec.ksa key hk = toPerm (ksa key hk) := by
  have := ksa_sim key hk (List.finRange 256) 0 identity 0 (by simpa using finRange_vals)
  simp only [List.length_finRange] at this
  unfold Spec.ksa ksa
  rw [← identity_toPerm]
  have h0 : (0 : UInt8).toNat = 0 := rfl
  rw [h0] at this
  rw [this]

/-- the generation loops agree step by step -/
theorem prga_sim : ∀ (src : Bytes) (st : State),
    (xorKeyStream st src).2 =
      List.zipWith (fun d k => d ^^^ UInt8.ofNat k) src (Spec.prga src.length (toPerm st.s) st.i.toNat st.j.toNat) := by
  intro src
  induction src with
  | nil => intro st; rfl
  | cons v rest ih =>
    intro st
    have hi : (st.i.toNat + 1) % 256 = (st.i + 1).toNat := by simp [UInt8.toNat_add]
    have hj : (st.j.toNat + Spec.get (toPerm st.s) ((st.i.toNat + 1) % 256)) % 256
        = (st.j + sAt st.s (st.i + 1)).toNat := by
      rw [hi, get_toPerm']; simp [UInt8.toNat_add]
    simp only [xorKeyStream, List.length_cons, Spec.prga, List.zipWith_cons_cons]
    rw [hj, hi, swap_toPerm', get_toPerm', get_toPerm', get_toPerm, UInt8.ofNat_toNat]
    rw [ih (step st v).1, ofNat_mod]
    rfl

theorem xorKeyStream_length : ∀ (src : Bytes) (st : State), (xorKeyStream st src).2.length = src.length := by
  intro src
  induction src with
  | nil => intro st; rfl
  | cons v rest ih => intro st; simp [xorKeyStream, ih]

theorem prga_length : ∀ (n : Nat) (S : Spec.Perm) (i j : Nat), (Spec.prga n S i j).length = n := by
  intro n
  induction n with
  | zero => intros; rfl
  | succ n ih => intro S i j; simp [Spec.prga, ih]

end Manticore.C12.RC4
