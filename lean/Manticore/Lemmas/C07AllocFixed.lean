/-
  C07, allocation clause — the fixed-size parsers: UUID / GUID readers (Model/C13.lean), the LDAP and
  key-credential time readers (Model/C15.lean), IPv4 / IPv6 / port-range / LM:NT parsers
  (Model/C20.lean).

  None of these functions reads a count or a length from its input, and none has a `make` sized by
  the input: the result is a Go struct of fixed-width integers and fixed arrays (or two strings cut
  out of the input, for LM:NT).  One theorem per model file states the constant: the size of the
  returned value — 8 per integer field, the array length for `[15]byte` / `[6]byte`, one per byte of
  a byte string — is THE SAME WHATEVER THE INPUT LENGTH ("fixed cap", c₁ = 0).  The temporaries of
  the text readers (`strings.TrimSpace` / `ToLower` / `Replace` / `Split`, `hex.DecodeString`,
  `regexp.MatchString`) are standard-library calls on the input string, each linear in `len(s)`;
  they are not modelled as `allocOf` here.
  Core Lean only.
-/
import Manticore.Lemmas.SmbCodecsAlloc
import Manticore.Props.C13
import Manticore.Props.C15
import Manticore.Props.C20
namespace Manticore.C07A.Fixed
open Manticore Manticore.C06

/-! ## UUID / GUID (Model/C13.lean) -/

/-- `uuid.UUID`: `Version`, `Variant` (two integers), `Data [15]byte` -/
def uuidSize (u : C13.UUID) : Nat := 8 + 8 + u.data.toList.length
/-- `UUIDv1` as the model keeps it: `Variant`, `Time`, `ClockSeq` (three integers), `NodeID [6]byte` -/
def v1Size (v : C13.V1) : Nat := 8 + 8 + 8 + [v.n0, v.n1, v.n2, v.n3, v.n4, v.n5].length
/-- `UUIDv2`: `Variant`, `LocalDomainNumber`, `Time`, `Clock`, `LocalDomain` (five integers), `NodeID [6]byte` -/
def v2Size (v : C13.V2) : Nat := 8 + 8 + 8 + 8 + 8 + [v.n0, v.n1, v.n2, v.n3, v.n4, v.n5].length
/-- `UUIDv8`: `Variant`, `Data [15]byte` -/
def v8Size (v : C13.V8) : Nat := 8 + v.data.toList.length
/-- `guid.GUID`: `A`, `B`, `C`, `D`, `E` (five integers) -/
def guidSize (_ : C13.GUID) : Nat := 8 + 8 + 8 + 8 + 8

/-- **UUID / GUID readers** (`crypto/uuid`: `(*UUID).Unmarshal`, `FromString`; `uuid_v1` / `uuid_v2` /
    `uuid_v8`: `Unmarshal`, `FromBytes`, `FromString`; `windows/guid`: `FromRawBytes`, `FromFormatN/D/B/P/X`,
    `FromString`): whatever the input length, the value returned is a struct of 31 (UUID), 30 (UUIDv1),
    46 (UUIDv2), 23 (UUIDv8), 40 (GUID) bytes in the size measure above.  Fixed cap; no allocation by count. -/
theorem c13_fixed_alloc_bound :
    (∀ m u, C13.unmarshal m = .ok u → uuidSize u = 31) ∧
    (∀ s u, C13.uuidFromString s = .ok u → uuidSize u = 31) ∧
    (∀ m v, C13.v1Unmarshal m = .ok v → v1Size v = 30) ∧
    (∀ m v, C13.v1FromBytes m = .ok v → v1Size v = 30) ∧
    (∀ s v, C13.v1FromString s = .ok v → v1Size v = 30) ∧
    (∀ m v, C13.v2Unmarshal m = .ok v → v2Size v = 46) ∧
    (∀ m v, C13.v2FromBytes m = .ok v → v2Size v = 46) ∧
    (∀ s v, C13.v2FromString s = .ok v → v2Size v = 46) ∧
    (∀ m v, C13.v8Unmarshal m = .ok v → v8Size v = 23) ∧
    (∀ m v, C13.v8FromBytes m = .ok v → v8Size v = 23) ∧
    (∀ s v, C13.v8FromString s = .ok v → v8Size v = 23) ∧
    (∀ b g, C13.fromRawBytes b = .ok g → guidSize g = 40) ∧
    (∀ F s g, C13.parse F s = .ok g → guidSize g = 40) ∧
    (∀ s g, C13.fromString s = .ok g → guidSize g = 40) :=
  ⟨fun _ _ _ => rfl, fun _ _ _ => rfl, fun _ _ _ => rfl, fun _ _ _ => rfl, fun _ _ _ => rfl, fun _ _ _ => rfl,
   fun _ _ _ => rfl, fun _ _ _ => rfl, fun _ _ _ => rfl, fun _ _ _ => rfl, fun _ _ _ => rfl, fun _ _ _ => rfl,
   fun _ _ _ _ => rfl, fun _ _ _ => rfl⟩

/-- non-vacuity: 40 bytes in, 31 out -/
example : C13.unmarshal (List.replicate 40 0) = .ok ⟨0, 0, ⟨0, 0, 0, 0, 0, 0, 0, 0, 0, 0, 0, 0, 0, 0, 0⟩⟩ := by decide

/-! ## LDAP and key-credential times (Model/C15.lean) -/

def int64Size (_ : Int64) : Nat := 8
/-- `DateTime{Ticks, Time}`: the tick count and the two integers of the `time.Time` -/
def kcTimeSize : C15.KcTime → Nat
  | .now => 8 + 8 + 8
  | .at _ _ _ => 8 + 8 + 8

/-- **LDAP / key-credential time readers** (`network/ldap/utils.go`: `ConvertLDAPTimeStampToUnixTimeStamp`,
    `ConvertLDAPDurationToSeconds`, both without error result; key credentials: `ConvertFromBinaryTime`):
    one `int64` (8), resp. one `DateTime` of three integers (24), whatever the input length.  Fixed cap. -/
theorem c15_fixed_alloc_bound :
    (∀ s, int64Size (C15.ldapToUnix s) = 8) ∧
    (∀ s, int64Size (C15.ldapDurationToSeconds s) = 8) ∧
    (∀ raw t, C15.convertFromBinaryTime raw = .ok t → kcTimeSize t = 24) :=
  ⟨fun _ => rfl, fun _ => rfl, fun _ t _ => by cases t <;> rfl⟩

example : C15.convertFromBinaryTime [1] = .ok (.at 0 (-11644473600) 0) := by decide
example : C15.ldapToUnix [49] = 0 := by decide

/-! ## addresses, port ranges, LM:NT (Model/C20.lean) -/

def ipv4Size : Option C20.IPv4 → Nat
  | none => 0
  | some _ => 8 + 8 + 8 + 8 + 8
def ipv6Size : Option C20.IPv6 → Nat
  | none => 0
  | some i => 8 * i.groups.length
def portRangeSize (_ : UInt16 × UInt16) : Nat := 8 + 8
def lmntSize (r : Bytes × Bytes) : Nat := r.1.length + r.2.length

/-- `if len(lmHash) != 32 { lmHash = "" }`, the same for `ntHash`: each is 0 or 32 bytes long -/
theorem lmntCore_size (t : Bytes) (r : Bytes × Bytes) (h : C20.lmntCore t = .ok r) : lmntSize r ≤ 64 := by
  unfold C20.lmntCore at h
  split at h
  · cases h
  · simp only [] at h
    obtain ⟨lm, _, h⟩ := bind_ok_inv h
    obtain ⟨nt, _, h⟩ := bind_ok_inv h
    simp only [Outcome.pure_eq, Outcome.ok.injEq] at h
    rw [← h]
    unfold lmntSize
    simp only []
    split <;> split <;> first | (simp only [List.length_nil]; omega) | omega

/-- **`NewIPv4FromString`, `NewIPv6FromString`, `NewTCPPortRangeFromString`, `ParseLMNTHashes`**
    (`network/ip`, `windows/credentials`): an address of five (40) resp. eight (64) integers or `nil` (0);
    a port range is the TWO integers `Start`, `End` (16) — the ports in between are never materialised;
    the LM and NT hashes are each a 32-character piece of the input or the empty string, 64 bytes at
    most.  Fixed caps, whatever the input length. -/
theorem c20_fixed_alloc_bound :
    (∀ s r, C20.parseIPv4 s = .ok r → ipv4Size r ≤ 40) ∧
    (∀ s r, C20.parseIPv6 s = .ok r → ipv6Size r ≤ 64) ∧
    (∀ s r, C20.parsePortRange s = .ok r → portRangeSize r = 16) ∧
    (∀ s r, C20.parseLMNT s = .ok r → lmntSize r ≤ 64) :=
  ⟨fun _ r _ => by cases r <;> simp [ipv4Size],
   fun _ r _ => by cases r <;> simp [ipv6Size, C20.IPv6.groups],
   fun _ _ _ => rfl,
   fun s r h => lmntCore_size _ r h⟩

/-- `1.2.3.4/8`, `1-2`, an NT hash of 32 `a`, `1:2:3:4:5:6:7:8` -/
example : C20.parseIPv4 [49, 46, 50, 46, 51, 46, 52, 47, 56] = .ok (some ⟨1, 2, 3, 4, 8⟩) := by decide
example : C20.parsePortRange [49, 45, 50] = .ok (1, 2) := by decide
example : C20.parseLMNT (List.replicate 32 97) = .ok ([], List.replicate 32 97) := by decide
example : C20.parseIPv6 [49, 58, 50, 58, 51, 58, 52, 58, 53, 58, 54, 58, 55, 58, 56] = .ok (some ⟨1, 2, 3, 4, 5, 6, 7, 8⟩) := by decide

end Manticore.C07A.Fixed
