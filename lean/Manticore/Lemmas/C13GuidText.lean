/-
  Helper lemmas for C13: the GUID text formats D, B, P, N.  For each format, the parser applied to the
  canonical rendering of its hex groups returns those groups, and everything the parser accepts is such
  a rendering.
-/
import Manticore.Lemmas.C13Text
namespace Manticore.C13
open Manticore

def guidOfValues (a b c d e : Nat) : GUID :=
  ⟨UInt32.ofNat a, UInt16.ofNat b, UInt16.ofNat c, UInt16.ofNat d, UInt64.ofNat e⟩

theorem pow16_8 : (16:Nat) ^ 8 = 2 ^ 32 := by decide
theorem pow16_4 : (16:Nat) ^ 4 = 2 ^ 16 := by decide
theorem pow16_12 : (16:Nat) ^ 12 = 2 ^ 48 := by decide
theorem pow16_2 : (16:Nat) ^ 2 = 256 := by decide

theorem fmtHexPad_of_lt (w n : Nat) (h : n < 16 ^ w) : fmtHexPad w n = fixedHex w n := by
  unfold fmtHexPad; rw [if_pos h]

theorem guidOfValues_fields (g : GUID) : guidOfValues g.A.toNat g.B.toNat g.C.toNat g.D.toNat g.E.toNat = g := by
  obtain ⟨A, B, C, D, E⟩ := g
  simp [guidOfValues]

/-- the values a successfully built GUID holds, when they fit -/
theorem guidOfValues_toNat (a b c d e : Nat) (ha : a < 16 ^ 8) (hb : b < 16 ^ 4) (hc : c < 16 ^ 4) (hd : d < 16 ^ 4)
    (he : e < 16 ^ 12) :
    (guidOfValues a b c d e).A.toNat = a ∧ (guidOfValues a b c d e).B.toNat = b ∧ (guidOfValues a b c d e).C.toNat = c ∧
    (guidOfValues a b c d e).D.toNat = d ∧ (guidOfValues a b c d e).E.toNat = e := by
  rw [pow16_8] at ha; rw [pow16_4] at hb hc hd; rw [pow16_12] at he
  simp only [guidOfValues, UInt32.toNat_ofNat', UInt16.toNat_ofNat', UInt64.toNat_ofNat']
  refine ⟨?_, ?_, ?_, ?_, ?_⟩ <;> (apply Nat.mod_eq_of_lt; omega)

/-! ### the dashed text `8-4-4-4-12` -/

def dText (a b c d e : Nat) : Bytes :=
  fixedHex 8 a ++ dash :: (fixedHex 4 b ++ dash :: (fixedHex 4 c ++ dash :: (fixedHex 4 d ++ dash :: fixedHex 12 e)))

theorem render_patD (a b c d e : Nat) : render patD [a, b, c, d, e] = dText a b c d e := by
  simp [render, patD, dText]

theorem fits_patD (vs : List Nat) (h : Fits patD vs) :
    ∃ a b c d e, vs = [a, b, c, d, e] ∧ a < 16 ^ 8 ∧ b < 16 ^ 4 ∧ c < 16 ^ 4 ∧ d < 16 ^ 4 ∧ e < 16 ^ 12 := by
  match vs, h with
  | [], h => simp [patD, Fits] at h
  | [_], h => simp [patD, Fits] at h
  | [_, _], h => simp [patD, Fits] at h
  | [_, _, _], h => simp [patD, Fits] at h
  | [_, _, _, _], h => simp [patD, Fits] at h
  | [a, b, c, d, e], h => simp only [patD, Fits] at h; exact ⟨a, b, c, d, e, rfl, h.1, h.2.1, h.2.2.1, h.2.2.2.1, h.2.2.2.2.1⟩
  | _ :: _ :: _ :: _ :: _ :: _ :: _, h => simp [patD, Fits] at h

theorem fits_patD_of (a b c d e : Nat) (ha : a < 16 ^ 8) (hb : b < 16 ^ 4) (hc : c < 16 ^ 4) (hd : d < 16 ^ 4)
    (he : e < 16 ^ 12) : Fits patD [a, b, c, d, e] := by
  simp only [patD, Fits]; exact ⟨ha, hb, hc, hd, he, trivial⟩

private theorem nodash (w n : Nat) : ∀ c ∈ fixedHex w n, c ≠ dash :=
  fun c hc => ne_dash_of_isLowerHex c (isLowerHex_of_mem_fixedHex w n c hc)

theorem split_dText (a b c d e : Nat) :
    split dash (dText a b c d e) = [fixedHex 8 a, fixedHex 4 b, fixedHex 4 c, fixedHex 4 d, fixedHex 12 e] := by
  unfold split dText
  rw [split_cons_part _ _ _ (nodash 8 a), split_cons_part _ _ _ (nodash 4 b), split_cons_part _ _ _ (nodash 4 c),
    split_cons_part _ _ _ (nodash 4 d), split_last_part _ _ (nodash 12 e)]

theorem guidOfParts_fixed (a b c d e : Nat) (ha : a < 16 ^ 8) (hb : b < 16 ^ 4) (hc : c < 16 ^ 4) (hd : d < 16 ^ 4)
    (he : e < 16 ^ 12) :
    guidOfParts (fixedHex 8 a) (fixedHex 4 b) (fixedHex 4 c) (fixedHex 4 d) (fixedHex 12 e) = .ok (guidOfValues a b c d e) := by
  unfold guidOfParts
  rw [parseUintHex_fixedHex 32 8 a (by decide) (by decide) ha, parseUintHex_fixedHex 16 4 b (by decide) (by decide) hb,
    parseUintHex_fixedHex 16 4 c (by decide) (by decide) hc, parseUintHex_fixedHex 16 4 d (by decide) (by decide) hd,
    parseUintHex_fixedHex 64 12 e (by decide) (by decide) he]
  rfl

/-- every character of a rendering of one of the five patterns is neither white space nor upper case -/
theorem render_clean (F : Fmt) (vs : List Nat) : toLower (trimSpace (render (pat F) vs)) = render (pat F) vs := by
  have hsp : ∀ c ∈ render (pat F) vs, isSpace c = false := by
    intro c hc
    have := mem_render (fun c => !isSpace c) (pat F) vs
      (fun c h => by simp [not_isSpace_of_isLowerHex c h]) (by cases F <;> decide) c hc
    simpa using this
  have hlo : ∀ c ∈ render (pat F) vs, lowerByte c = c := by
    intro c hc
    have := mem_render (fun c => lowerByte c == c) (pat F) vs
      (fun c h => by simp [lowerByte_of_isLowerHex c h]) (by cases F <;> decide) c hc
    simpa using this
  rw [trimSpace_eq_self _ hsp, toLower_eq_self _ hlo]

theorem render_clean_upper (F : Fmt) (vs : List Nat) :
    toLower (trimSpace (toUpper (render (pat F) vs))) = render (pat F) vs := by
  have hsp : ∀ c ∈ render (pat F) vs, isSpace c = false := by
    intro c hc
    have := mem_render (fun c => !isSpace c) (pat F) vs
      (fun c h => by simp [not_isSpace_of_isLowerHex c h]) (by cases F <;> decide) c hc
    simpa using this
  have hlo : ∀ c ∈ render (pat F) vs, lowerByte c = c := by
    intro c hc
    have := mem_render (fun c => lowerByte c == c) (pat F) vs
      (fun c h => by simp [lowerByte_of_isLowerHex c h]) (by cases F <;> decide) c hc
    simpa using this
  rw [trimSpace_toUpper_nospace _ hsp, toLower_toUpper, toLower_eq_self _ hlo]

/-! ### format D -/

def dCore (data : Bytes) : Outcome GUID :=
  if !matchPat patD data then .err
  else
    match split dash data with
    | [p0, p1, p2, p3, p4] => guidOfParts p0 p1 p2 p3 p4
    | _ => .err

theorem fromFormatD_eq (s : Bytes) : fromFormatD s = dCore (toLower (trimSpace s)) := rfl

theorem dCore_dText (a b c d e : Nat) (ha : a < 16 ^ 8) (hb : b < 16 ^ 4) (hc : c < 16 ^ 4) (hd : d < 16 ^ 4)
    (he : e < 16 ^ 12) : dCore (dText a b c d e) = .ok (guidOfValues a b c d e) := by
  unfold dCore
  have hm : matchPat patD (dText a b c d e) = true := by
    rw [← render_patD]; exact matchPat_render _ _ (fits_patD_of a b c d e ha hb hc hd he)
  rw [hm, split_dText]
  simp only [Bool.not_true, Bool.false_eq_true, if_false]
  exact guidOfParts_fixed a b c d e ha hb hc hd he

/-- whatever a pattern-guarded parser accepts is a rendering of values that fit -/
theorem of_matchPat_patD (t : Bytes) (h : matchPat patD t = true) :
    ∃ a b c d e, t = dText a b c d e ∧ a < 16 ^ 8 ∧ b < 16 ^ 4 ∧ c < 16 ^ 4 ∧ d < 16 ^ 4 ∧ e < 16 ^ 12 := by
  rw [matchPat_eq_isSome] at h
  cases hp : parsePat patD t with
  | none => rw [hp] at h; simp at h
  | some vs =>
    obtain ⟨hr, hf⟩ := parsePat_sound _ _ _ hp
    obtain ⟨a, b, c, d, e, rfl, hb⟩ := fits_patD vs hf
    exact ⟨a, b, c, d, e, by rw [← hr, render_patD], hb⟩

theorem dCore_ok (t : Bytes) (g : GUID) (h : dCore t = .ok g) :
    ∃ a b c d e, t = dText a b c d e ∧ g = guidOfValues a b c d e ∧
      a < 16 ^ 8 ∧ b < 16 ^ 4 ∧ c < 16 ^ 4 ∧ d < 16 ^ 4 ∧ e < 16 ^ 12 := by
  have hm : matchPat patD t = true := by
    unfold dCore at h
    cases hm : matchPat patD t with
    | true => rfl
    | false => rw [hm] at h; simp at h
  obtain ⟨a, b, c, d, e, rfl, ha, hb, hc, hd, he⟩ := of_matchPat_patD t hm
  rw [dCore_dText a b c d e ha hb hc hd he] at h
  simp only [Outcome.ok.injEq] at h
  exact ⟨a, b, c, d, e, rfl, h.symm, ha, hb, hc, hd, he⟩

theorem dashed_eq_dText (g : GUID) (hE : g.E.toNat < 2 ^ 48) :
    dashed g = dText g.A.toNat g.B.toNat g.C.toNat g.D.toNat g.E.toNat := by
  have hA := g.A.toNat_lt; have hB := g.B.toNat_lt; have hC := g.C.toNat_lt; have hD := g.D.toNat_lt
  unfold dashed dText
  rw [fmtHexPad_of_lt 8 _ (by rw [pow16_8]; exact hA), fmtHexPad_of_lt 4 _ (by rw [pow16_4]; exact hB),
    fmtHexPad_of_lt 4 _ (by rw [pow16_4]; exact hC), fmtHexPad_of_lt 4 _ (by rw [pow16_4]; exact hD),
    fmtHexPad_of_lt 12 _ (by rw [pow16_12]; exact hE)]
  simp

theorem dashed_guidOfValues (a b c d e : Nat) (ha : a < 16 ^ 8) (hb : b < 16 ^ 4) (hc : c < 16 ^ 4) (hd : d < 16 ^ 4)
    (he : e < 16 ^ 12) : dashed (guidOfValues a b c d e) = dText a b c d e := by
  obtain ⟨h1, h2, h3, h4, h5⟩ := guidOfValues_toNat a b c d e ha hb hc hd he
  rw [dashed_eq_dText _ (by rw [h5, ← pow16_12]; exact he), h1, h2, h3, h4, h5]


/-! ### formats B and P -/

theorem slice_inner (x y : UInt8) (mid : Bytes) :
    slice (x :: (mid ++ [y])) 1 ((x :: (mid ++ [y])).length - 1) = .ok mid := by
  unfold slice
  have hl : (x :: (mid ++ [y])).length = mid.length + 2 := by simp
  rw [hl, if_pos (by omega)]
  simp

theorem dText_clean (a b c d e : Nat) : toLower (trimSpace (dText a b c d e)) = dText a b c d e := by
  have := render_clean .D [a, b, c, d, e]
  simpa [pat, render_patD] using this

def bracketCore (p : List Tok) (data : Bytes) : Outcome GUID :=
  if !matchPat p data then .err
  else
    match slice data 1 (data.length - 1) with
    | .ok inner => fromFormatD inner
    | .err => .err
    | .panic => .panic

theorem fromFormatB_eq (s : Bytes) : fromFormatB s = bracketCore patB (toLower (trimSpace s)) := rfl
theorem fromFormatP_eq (s : Bytes) : fromFormatP s = bracketCore patP (toLower (trimSpace s)) := rfl

theorem render_patB (a b c d e : Nat) : render patB [a, b, c, d, e] = lbrace :: (dText a b c d e ++ [rbrace]) := by
  simp [render, patB, patD, dText]
theorem render_patP (a b c d e : Nat) : render patP [a, b, c, d, e] = lparen :: (dText a b c d e ++ [rparen]) := by
  simp [render, patP, patD, dText]

theorem fits_patB (vs : List Nat) : Fits patB vs ↔ Fits patD vs := by
  simp only [patB, Fits, patD, List.cons_append, List.nil_append]
  match vs with
  | [] => simp [Fits]
  | [_] => simp [Fits]
  | [_, _] => simp [Fits]
  | [_, _, _] => simp [Fits]
  | [_, _, _, _] => simp [Fits]
  | [a, b, c, d, e] => simp [Fits]
  | _ :: _ :: _ :: _ :: _ :: _ :: _ => simp [Fits]

theorem fits_patP (vs : List Nat) : Fits patP vs ↔ Fits patD vs := by
  simp only [patP, Fits, patD, List.cons_append, List.nil_append]
  match vs with
  | [] => simp [Fits]
  | [_] => simp [Fits]
  | [_, _] => simp [Fits]
  | [_, _, _] => simp [Fits]
  | [_, _, _, _] => simp [Fits]
  | [a, b, c, d, e] => simp [Fits]
  | _ :: _ :: _ :: _ :: _ :: _ :: _ => simp [Fits]

/-- the two bracketed formats share everything but the pattern and the bracket characters -/
theorem bracketCore_text (p : List Tok) (x y : UInt8) (hfit : ∀ vs, Fits p vs ↔ Fits patD vs)
    (hr : ∀ a b c d e, render p [a, b, c, d, e] = x :: (dText a b c d e ++ [y]))
    (a b c d e : Nat) (ha : a < 16 ^ 8) (hb : b < 16 ^ 4) (hc : c < 16 ^ 4) (hd : d < 16 ^ 4) (he : e < 16 ^ 12) :
    bracketCore p (x :: (dText a b c d e ++ [y])) = .ok (guidOfValues a b c d e) := by
  unfold bracketCore
  have hm : matchPat p (x :: (dText a b c d e ++ [y])) = true := by
    rw [← hr]; exact matchPat_render _ _ ((hfit _).mpr (fits_patD_of a b c d e ha hb hc hd he))
  rw [hm, slice_inner]
  simp only [Bool.not_true, Bool.false_eq_true, if_false]
  rw [fromFormatD_eq, dText_clean]
  exact dCore_dText a b c d e ha hb hc hd he

theorem bracketCore_ok (p : List Tok) (x y : UInt8) (hfit : ∀ vs, Fits p vs ↔ Fits patD vs)
    (hr : ∀ a b c d e, render p [a, b, c, d, e] = x :: (dText a b c d e ++ [y]))
    (t : Bytes) (g : GUID) (h : bracketCore p t = .ok g) :
    ∃ a b c d e, t = x :: (dText a b c d e ++ [y]) ∧ g = guidOfValues a b c d e ∧
      a < 16 ^ 8 ∧ b < 16 ^ 4 ∧ c < 16 ^ 4 ∧ d < 16 ^ 4 ∧ e < 16 ^ 12 := by
  have hm : matchPat p t = true := by
    unfold bracketCore at h
    cases hm : matchPat p t with
    | true => rfl
    | false => rw [hm] at h; simp at h
  rw [matchPat_eq_isSome] at hm
  cases hp : parsePat p t with
  | none => rw [hp] at hm; simp at hm
  | some vs =>
    obtain ⟨hrn, hf⟩ := parsePat_sound _ _ _ hp
    obtain ⟨a, b, c, d, e, rfl, ha, hb, hc, hd, he⟩ := fits_patD vs ((hfit vs).mp hf)
    rw [hr] at hrn
    subst hrn
    rw [bracketCore_text p x y hfit hr a b c d e ha hb hc hd he] at h
    simp only [Outcome.ok.injEq] at h
    exact ⟨a, b, c, d, e, rfl, h.symm, ha, hb, hc, hd, he⟩

/-! ### format N -/

def nText (a b c d e : Nat) : Bytes := fixedHex 8 a ++ (fixedHex 4 b ++ (fixedHex 4 c ++ (fixedHex 4 d ++ fixedHex 12 e)))

def nCore (data : Bytes) : Outcome GUID :=
  if data.length != 32 then .err
  else
    match slice data 0 8, slice data 8 12, slice data 12 16, slice data 16 20, slice data 20 32 with
    | .ok p0, .ok p1, .ok p2, .ok p3, .ok p4 => guidOfParts p0 p1 p2 p3 p4
    | _, _, _, _, _ => .panic

theorem fromFormatN_eq (s : Bytes) : fromFormatN s = nCore (toLower (trimSpace s)) := rfl

theorem slice_ok (b : Bytes) (lo hi : Nat) (h : lo ≤ hi ∧ hi ≤ b.length) : slice b lo hi = .ok ((b.drop lo).take (hi - lo)) := by
  unfold slice; rw [if_pos h]

theorem nCore_of_length (data : Bytes) (h : data.length = 32) :
    nCore data = guidOfParts (data.take 8) ((data.drop 8).take 4) ((data.drop 12).take 4) ((data.drop 16).take 4) (data.drop 20) := by
  unfold nCore
  rw [if_neg (by simp [h])]
  rw [slice_ok data 0 8 (by omega), slice_ok data 8 12 (by omega), slice_ok data 12 16 (by omega),
    slice_ok data 16 20 (by omega), slice_ok data 20 32 (by omega)]
  simp only [List.drop_zero, Nat.sub_zero, Nat.reduceSub]
  congr 1
  rw [List.take_of_length_le (by simp; omega)]

theorem length_nText (a b c d e : Nat) : (nText a b c d e).length = 32 := by simp [nText]

theorem nCore_nText (a b c d e : Nat) (ha : a < 16 ^ 8) (hb : b < 16 ^ 4) (hc : c < 16 ^ 4) (hd : d < 16 ^ 4)
    (he : e < 16 ^ 12) : nCore (nText a b c d e) = .ok (guidOfValues a b c d e) := by
  rw [nCore_of_length _ (length_nText a b c d e)]
  have e0 : (nText a b c d e).take 8 = fixedHex 8 a := by
    unfold nText; rw [List.take_append_of_le_length (by simp)]; simp [List.take_of_length_le]
  have d8 : (nText a b c d e).drop 8 = fixedHex 4 b ++ (fixedHex 4 c ++ (fixedHex 4 d ++ fixedHex 12 e)) := by
    unfold nText; exact List.drop_left' (by simp)
  have d12 : (nText a b c d e).drop 12 = fixedHex 4 c ++ (fixedHex 4 d ++ fixedHex 12 e) := by
    have : (12:Nat) = 8 + 4 := rfl
    rw [this, ← List.drop_drop, d8]; exact List.drop_left' (by simp)
  have d16 : (nText a b c d e).drop 16 = fixedHex 4 d ++ fixedHex 12 e := by
    have : (16:Nat) = 12 + 4 := rfl
    rw [this, ← List.drop_drop, d12]; exact List.drop_left' (by simp)
  have d20 : (nText a b c d e).drop 20 = fixedHex 12 e := by
    have : (20:Nat) = 16 + 4 := rfl
    rw [this, ← List.drop_drop, d16]; exact List.drop_left' (by simp)
  have tk : ∀ (x : Nat) (r : Bytes), (fixedHex 4 x ++ r).take 4 = fixedHex 4 x := by
    intro x r; rw [List.take_append_of_le_length (by simp)]; simp [List.take_of_length_le]
  rw [e0, d8, d12, d16, d20, tk, tk, tk]
  exact guidOfParts_fixed a b c d e ha hb hc hd he

theorem guidOfParts_ok (p0 p1 p2 p3 p4 : Bytes) (g : GUID) (h : guidOfParts p0 p1 p2 p3 p4 = .ok g) :
    ∃ a b c d e, parseUintHex 32 p0 = some a ∧ parseUintHex 16 p1 = some b ∧ parseUintHex 16 p2 = some c ∧
      parseUintHex 16 p3 = some d ∧ parseUintHex 64 p4 = some e ∧ g = guidOfValues a b c d e := by
  unfold guidOfParts at h
  cases h0 : parseUintHex 32 p0 with
  | none => rw [h0] at h; simp at h
  | some a =>
  cases h1 : parseUintHex 16 p1 with
  | none => rw [h0, h1] at h; simp at h
  | some b =>
  cases h2 : parseUintHex 16 p2 with
  | none => rw [h0, h1, h2] at h; simp at h
  | some c =>
  cases h3 : parseUintHex 16 p3 with
  | none => rw [h0, h1, h2, h3] at h; simp at h
  | some d =>
  cases h4 : parseUintHex 64 p4 with
  | none => rw [h0, h1, h2, h3, h4] at h; simp at h
  | some e =>
    rw [h0, h1, h2, h3, h4] at h
    simp only [Outcome.ok.injEq] at h
    exact ⟨a, b, c, d, e, rfl, rfl, rfl, rfl, rfl, h.symm⟩

/-- what `FromFormatN` accepts (after trimming and lower-casing) is `nText` of values that fit -/
theorem nCore_ok (t : Bytes) (g : GUID) (hlow : toLower t = t) (h : nCore t = .ok g) :
    ∃ a b c d e, t = nText a b c d e ∧ g = guidOfValues a b c d e ∧
      a < 16 ^ 8 ∧ b < 16 ^ 4 ∧ c < 16 ^ 4 ∧ d < 16 ^ 4 ∧ e < 16 ^ 12 := by
  have hl : t.length = 32 := by
    unfold nCore at h
    by_cases hl : t.length = 32
    · exact hl
    · rw [if_pos (by simpa using hl)] at h; simp at h
  rw [nCore_of_length t hl] at h
  obtain ⟨a, b, c, d, e, h0, h1, h2, h3, h4, rfl⟩ := guidOfParts_ok _ _ _ _ _ g h
  obtain ⟨-, -, ha, fa⟩ := parseUintHex_some _ _ _ h0
  obtain ⟨-, -, hb, fb⟩ := parseUintHex_some _ _ _ h1
  obtain ⟨-, -, hc, fc⟩ := parseUintHex_some _ _ _ h2
  obtain ⟨-, -, hd, fd⟩ := parseUintHex_some _ _ _ h3
  obtain ⟨-, -, he, fe⟩ := parseUintHex_some _ _ _ h4
  have l0 : (t.take 8).length = 8 := by simp; omega
  have l1 : ((t.drop 8).take 4).length = 4 := by simp; omega
  have l2 : ((t.drop 12).take 4).length = 4 := by simp; omega
  have l3 : ((t.drop 16).take 4).length = 4 := by simp; omega
  have l4 : (t.drop 20).length = 12 := by simp; omega
  rw [l0] at ha fa; rw [l1] at hb fb; rw [l2] at hc fc; rw [l3] at hd fd; rw [l4] at he fe
  -- slices of a lower-cased text are lower-cased
  have low_take : ∀ (k : Nat), toLower (t.take k) = t.take k := by
    intro k; conv => rhs; rw [← hlow]
    simp [toLower, List.map_take]
  have low_drop : ∀ (k : Nat), toLower (t.drop k) = t.drop k := by
    intro k; conv => rhs; rw [← hlow]
    simp [toLower, List.map_drop]
  have low_dt : ∀ (j k : Nat), toLower ((t.drop j).take k) = (t.drop j).take k := by
    intro j k; conv => rhs; rw [← hlow]
    simp [toLower, List.map_take, List.map_drop]
  rw [low_take] at fa; rw [low_dt] at fb fc fd; rw [low_drop] at fe
  refine ⟨a, b, c, d, e, ?_, rfl, ha, hb, hc, hd, he⟩
  unfold nText
  rw [fa, fb, fc, fd, fe]
  -- reassemble the five slices
  have s1 : t = t.take 8 ++ t.drop 8 := (List.take_append_drop 8 t).symm
  have s2 : t.drop 8 = (t.drop 8).take 4 ++ t.drop 12 := by
    have := (List.take_append_drop 4 (t.drop 8)).symm; rwa [List.drop_drop] at this
  have s3 : t.drop 12 = (t.drop 12).take 4 ++ t.drop 16 := by
    have := (List.take_append_drop 4 (t.drop 12)).symm; rwa [List.drop_drop] at this
  have s4 : t.drop 16 = (t.drop 16).take 4 ++ t.drop 20 := by
    have := (List.take_append_drop 4 (t.drop 16)).symm; rwa [List.drop_drop] at this
  conv => lhs; rw [s1, s2, s3, s4]

theorem toFormatN_eq_nText (g : GUID) (hE : g.E.toNat < 2 ^ 48) :
    toFormatN g = nText g.A.toNat g.B.toNat g.C.toNat g.D.toNat g.E.toNat := by
  have hA := g.A.toNat_lt; have hB := g.B.toNat_lt; have hC := g.C.toNat_lt; have hD := g.D.toNat_lt
  unfold toFormatN nText
  rw [fmtHexPad_of_lt 8 _ (by rw [pow16_8]; exact hA), fmtHexPad_of_lt 4 _ (by rw [pow16_4]; exact hB),
    fmtHexPad_of_lt 4 _ (by rw [pow16_4]; exact hC), fmtHexPad_of_lt 4 _ (by rw [pow16_4]; exact hD),
    fmtHexPad_of_lt 12 _ (by rw [pow16_12]; exact hE)]
  simp

theorem toFormatN_guidOfValues (a b c d e : Nat) (ha : a < 16 ^ 8) (hb : b < 16 ^ 4) (hc : c < 16 ^ 4) (hd : d < 16 ^ 4)
    (he : e < 16 ^ 12) : toFormatN (guidOfValues a b c d e) = nText a b c d e := by
  obtain ⟨h1, h2, h3, h4, h5⟩ := guidOfValues_toNat a b c d e ha hb hc hd he
  rw [toFormatN_eq_nText _ (by rw [h5, ← pow16_12]; exact he), h1, h2, h3, h4, h5]

/-- `nText` is the rendering of the single 32-digit group of `^[0-9a-f]{32}$` -/
theorem nText_clean (a b c d e : Nat) : toLower (trimSpace (nText a b c d e)) = nText a b c d e := by
  have hh : ∀ x ∈ nText a b c d e, isLowerHex x = true := by
    intro x hx
    simp only [nText, List.mem_append] at hx
    rcases hx with hx | hx | hx | hx | hx <;> exact isLowerHex_of_mem_fixedHex _ _ x hx
  rw [trimSpace_eq_self _ (fun x hx => not_isSpace_of_isLowerHex x (hh x hx)),
    toLower_eq_self _ (fun x hx => lowerByte_of_isLowerHex x (hh x hx))]

theorem nText_clean_upper (a b c d e : Nat) : toLower (trimSpace (toUpper (nText a b c d e))) = nText a b c d e := by
  have hh : ∀ x ∈ nText a b c d e, isLowerHex x = true := by
    intro x hx
    simp only [nText, List.mem_append] at hx
    rcases hx with hx | hx | hx | hx | hx <;> exact isLowerHex_of_mem_fixedHex _ _ x hx
  rw [trimSpace_toUpper_nospace _ (fun x hx => not_isSpace_of_isLowerHex x (hh x hx)), toLower_toUpper,
    toLower_eq_self _ (fun x hx => lowerByte_of_isLowerHex x (hh x hx))]

theorem matchPat_patN_nText (a b c d e : Nat) : matchPat patN (nText a b c d e) = true := by
  have hh : (nText a b c d e).all isLowerHex = true := by
    rw [List.all_eq_true]
    intro x hx
    simp only [nText, List.mem_append] at hx
    rcases hx with hx | hx | hx | hx | hx <;> exact isLowerHex_of_mem_fixedHex _ _ x hx
  have hl := length_nText a b c d e
  simp only [patN, matchPat, Bool.and_eq_true, beq_iff_eq]
  rw [List.take_of_length_le (by omega), List.drop_of_length_le (by omega)]
  exact ⟨⟨hl, hh⟩, rfl⟩

end Manticore.C13
