/-
  Helper lemmas for C13: the text form of the 16 marshalled bytes (`String`) and the common front end of
  the four `FromString`s, as inverse directions.
-/
import Manticore.Lemmas.C13Nat
import Manticore.Lemmas.C13GuidTextX
namespace Manticore.C13
open Manticore

/-- put the four hyphens into 32 characters -/
def hyph (x : Bytes) : Bytes :=
  x.take 8 ++ dash :: ((x.drop 8).take 4 ++ dash :: ((x.drop 12).take 4 ++ dash :: ((x.drop 16).take 4 ++ dash :: x.drop 20)))

theorem fixedHex2_byte (x : UInt8) : fixedHex 2 x.toNat = hexOfBytes [x] := by
  have := x.toNat_lt
  have h : x.toNat / 16 % 16 = x.toNat / 16 := by omega
  simp [fixedHex, hexOfBytes, h]

theorem hex_be32 (a b c d : UInt8) : fmtHexPad 8 (be32 a b c d).toNat = hexOfBytes [a, b, c, d] := by
  have ha := a.toNat_lt; have hb := b.toNat_lt; have hc := c.toNat_lt; have hd := d.toNat_lt
  rw [be32_toNat, fmtHexPad_of_lt 8 _ (by rw [pow16_8]; omega)]
  have e : a.toNat * 2 ^ 24 + b.toNat * 2 ^ 16 + c.toNat * 2 ^ 8 + d.toNat =
      ((a.toNat * 256 + b.toNat) * 256 + c.toNat) * 256 + d.toNat := by omega
  rw [e, fixedHex_snoc_byte 6 _ _ hd, fixedHex_snoc_byte 4 _ _ hc, fixedHex_snoc_byte 2 _ _ hb]
  simp only [fixedHex2_byte]
  simp [hexOfBytes]

theorem hex_be16 (a b : UInt8) : fmtHexPad 4 (be16 a b).toNat = hexOfBytes [a, b] := by
  have ha := a.toNat_lt; have hb := b.toNat_lt
  rw [be16_toNat, fmtHexPad_of_lt 4 _ (by rw [pow16_4]; omega)]
  have e : a.toNat * 2 ^ 8 + b.toNat = a.toNat * 256 + b.toNat := by omega
  rw [e, fixedHex_snoc_byte 2 _ _ hb]
  simp only [fixedHex2_byte]
  simp [hexOfBytes]

theorem textOf16_eq (m0 m1 m2 m3 m4 m5 m6 m7 m8 m9 m10 m11 m12 m13 m14 m15 : UInt8) :
    textOf16 [m0, m1, m2, m3, m4, m5, m6, m7, m8, m9, m10, m11, m12, m13, m14, m15] =
      hyph (hexOfBytes [m0, m1, m2, m3, m4, m5, m6, m7, m8, m9, m10, m11, m12, m13, m14, m15]) := by
  simp only [textOf16, hex_be32, hex_be16, fmtHexBytesPad]
  simp [hyph, hexOfBytes]

theorem isLowerHex_of_mem_hexOfBytes (m : Bytes) : ∀ c ∈ hexOfBytes m, isLowerHex c = true := by
  intro c hc
  simp only [hexOfBytes, List.mem_flatMap, List.mem_cons, List.not_mem_nil, or_false] at hc
  obtain ⟨x, -, h | h⟩ := hc
  · subst h; exact isLowerHex_hexChar _ (by have := x.toNat_lt; omega)
  · subst h; exact isLowerHex_hexChar _ (Nat.mod_lt _ (by decide))

theorem lowerByte_dash : lowerByte dash = dash := by decide
theorem lowerByte_ne_dash : ∀ c : UInt8, (lowerByte c != dash) = (c != dash) := by byte_decide

theorem toLower_hyph (x : Bytes) : toLower (hyph x) = hyph (toLower x) := by
  simp [hyph, toLower, List.map_take, List.map_drop, lowerByte_dash]

theorem toLower_removeByte_dash (s : Bytes) : toLower (removeByte dash s) = removeByte dash (toLower s) := by
  induction s with
  | nil => rfl
  | cons c t ih =>
    simp only [removeByte, toLower, List.filter_cons, List.map_cons, lowerByte_ne_dash] at *
    by_cases h : (c != dash) = true
    · simp [h, ih]
    · simp [h, ih]

/-- removing the hyphens from a hyphenated hyphen-free 32-character string gives it back -/
theorem removeByte_hyph (x : Bytes) (h : ∀ c ∈ x, c ≠ dash) : removeByte dash (hyph x) = x := by
  have f : ∀ l : Bytes, (∀ c ∈ l, c ∈ x) → l.filter (· != dash) = l := by
    intro l hl
    rw [List.filter_eq_self]
    intro c hc; simpa using h c (hl c hc)
  have e1 : (dash != dash) = false := by decide
  simp only [removeByte, hyph, List.filter_append, List.filter_cons, e1, Bool.false_eq_true, if_false]
  rw [f _ (fun c hc => List.mem_of_mem_take hc), f _ (fun c hc => List.mem_of_mem_drop (List.mem_of_mem_take hc)),
    f _ (fun c hc => List.mem_of_mem_drop (List.mem_of_mem_take hc)),
    f _ (fun c hc => List.mem_of_mem_drop (List.mem_of_mem_take hc)), f _ (fun c hc => List.mem_of_mem_drop hc)]
  have s2 : x.drop 8 = (x.drop 8).take 4 ++ x.drop 12 := by
    have := (List.take_append_drop 4 (x.drop 8)).symm; rwa [List.drop_drop] at this
  have s3 : x.drop 12 = (x.drop 12).take 4 ++ x.drop 16 := by
    have := (List.take_append_drop 4 (x.drop 12)).symm; rwa [List.drop_drop] at this
  have s4 : x.drop 16 = (x.drop 16).take 4 ++ x.drop 20 := by
    have := (List.take_append_drop 4 (x.drop 16)).symm; rwa [List.drop_drop] at this
  conv => rhs; rw [← List.take_append_drop 8 x, s2, s3, s4]

theorem length_hyph (x : Bytes) (h : x.length = 32) : (hyph x).length = 36 := by
  simp [hyph]; omega

private theorem drop_cons_of_getElem? (s : Bytes) (i : Nat) (c : UInt8) (h : s[i]? = some c) :
    s.drop i = c :: s.drop (i + 1) := by
  obtain ⟨hi, hc⟩ := List.getElem?_eq_some_iff.mp h
  rw [List.drop_eq_getElem_cons hi, hc]

/-- a 36-character string with hyphens at 8, 13, 18, 23 and no other is the hyphenation of its other 32 characters -/
theorem eq_hyph_of_guard (s : Bytes) (hg : hyphensMisplaced s = false) (hl : (removeByte dash s).length = 32) :
    s = hyph (removeByte dash s) := by
  simp only [hyphensMisplaced, Bool.or_eq_false_iff, bne_eq_false_iff_eq] at hg
  obtain ⟨⟨⟨⟨h36, h8⟩, h13⟩, h18⟩, h23⟩ := hg
  -- cut s at the four hyphens
  have c1 : s = s.take 8 ++ dash :: s.drop 9 := by
    conv => lhs; rw [← List.take_append_drop 8 s, drop_cons_of_getElem? s 8 dash h8]
  have c2 : s.drop 9 = (s.drop 9).take 4 ++ dash :: s.drop 14 := by
    have h : (s.drop 9)[4]? = some dash := by rw [List.getElem?_drop]; exact h13
    conv => lhs; rw [← List.take_append_drop 4 (s.drop 9), drop_cons_of_getElem? _ 4 dash h]
    simp [List.drop_drop]
  have c3 : s.drop 14 = (s.drop 14).take 4 ++ dash :: s.drop 19 := by
    have h : (s.drop 14)[4]? = some dash := by rw [List.getElem?_drop]; exact h18
    conv => lhs; rw [← List.take_append_drop 4 (s.drop 14), drop_cons_of_getElem? _ 4 dash h]
    simp [List.drop_drop]
  have c4 : s.drop 19 = (s.drop 19).take 4 ++ dash :: s.drop 24 := by
    have h : (s.drop 19)[4]? = some dash := by rw [List.getElem?_drop]; exact h23
    conv => lhs; rw [← List.take_append_drop 4 (s.drop 19), drop_cons_of_getElem? _ 4 dash h]
    simp [List.drop_drop]
  generalize ha : s.take 8 = a at c1
  generalize hb : (s.drop 9).take 4 = b at c2
  generalize hc : (s.drop 14).take 4 = c at c3
  generalize hd : (s.drop 19).take 4 = d at c4
  generalize he : s.drop 24 = e at c4
  have la : a.length = 8 := by rw [← ha]; simp; omega
  have lb : b.length = 4 := by rw [← hb]; simp; omega
  have lc : c.length = 4 := by rw [← hc]; simp; omega
  have ld : d.length = 4 := by rw [← hd]; simp; omega
  have le : e.length = 12 := by rw [← he]; simp; omega
  have hs : s = a ++ dash :: (b ++ dash :: (c ++ dash :: (d ++ dash :: e))) := by
    rw [c1, c2, c3, c4]
  -- the filter keeps every character of the five segments
  have e1 : (dash != dash) = false := by decide
  have hf : removeByte dash s = a.filter (· != dash) ++ (b.filter (· != dash) ++ (c.filter (· != dash) ++
      (d.filter (· != dash) ++ e.filter (· != dash)))) := by
    conv => lhs; rw [hs]
    simp only [removeByte, List.filter_append, List.filter_cons, e1, Bool.false_eq_true, if_false]
  have fa := List.length_filter_le (· != dash) a
  have fb := List.length_filter_le (· != dash) b
  have fc := List.length_filter_le (· != dash) c
  have fd := List.length_filter_le (· != dash) d
  have fe := List.length_filter_le (· != dash) e
  rw [hf] at hl
  simp only [List.length_append] at hl
  have ka : a.filter (· != dash) = a := List.filter_eq_self.mpr (List.length_filter_eq_length_iff.mp (by omega))
  have kb : b.filter (· != dash) = b := List.filter_eq_self.mpr (List.length_filter_eq_length_iff.mp (by omega))
  have kc : c.filter (· != dash) = c := List.filter_eq_self.mpr (List.length_filter_eq_length_iff.mp (by omega))
  have kd : d.filter (· != dash) = d := List.filter_eq_self.mpr (List.length_filter_eq_length_iff.mp (by omega))
  have ke : e.filter (· != dash) = e := List.filter_eq_self.mpr (List.length_filter_eq_length_iff.mp (by omega))
  rw [hf, ka, kb, kc, kd, ke]
  -- and hyphenating the concatenation restores s
  conv => lhs; rw [hs]
  unfold hyph
  have t8 : (a ++ (b ++ (c ++ (d ++ e)))).take 8 = a := by
    rw [List.take_append_of_le_length (by omega)]; exact List.take_of_length_le (by omega)
  have d8 : (a ++ (b ++ (c ++ (d ++ e)))).drop 8 = b ++ (c ++ (d ++ e)) := List.drop_left' la
  have d12 : (a ++ (b ++ (c ++ (d ++ e)))).drop 12 = c ++ (d ++ e) := by
    have : (12:Nat) = 8 + 4 := rfl
    rw [this, ← List.drop_drop, d8]; exact List.drop_left' lb
  have d16 : (a ++ (b ++ (c ++ (d ++ e)))).drop 16 = d ++ e := by
    have : (16:Nat) = 12 + 4 := rfl
    rw [this, ← List.drop_drop, d12]; exact List.drop_left' lc
  have d20 : (a ++ (b ++ (c ++ (d ++ e)))).drop 20 = e := by
    have : (20:Nat) = 16 + 4 := rfl
    rw [this, ← List.drop_drop, d16]; exact List.drop_left' ld
  have tk : ∀ (x r : Bytes), x.length = 4 → (x ++ r).take 4 = x := by
    intro x r hx; rw [List.take_append_of_le_length (by omega)]; exact List.take_of_length_le (by omega)
  rw [t8, d8, d12, d16, d20, tk b _ lb, tk c _ lc, tk d _ ld]

/-- **text → bytes → text**: what the front end accepts is the text of the bytes it returns (lower-cased) -/
theorem textTo16_ok (lf : Bool) (s m : Bytes) (h : textTo16 lf s = .ok m) :
    m.length = 16 ∧ textOf16 m = toLower s := by
  unfold textTo16 at h
  cases hg : hyphensMisplaced s with
  | true => rw [hg] at h; simp at h
  | false =>
    rw [hg] at h
    simp only [Bool.false_eq_true, if_false] at h
    by_cases hl : (removeByte dash s).length = 32
    · rw [if_neg (by simp [hl])] at h
      have hs := eq_hyph_of_guard s hg hl
      have hd : hexOfBytes m = toLower (removeByte dash s) := by
        cases lf with
        | false =>
          simp only [Bool.false_eq_true, if_false] at h
          cases hx : decodeHex (removeByte dash s) with
          | none => rw [hx] at h; simp [ofOpt] at h
          | some m' =>
            rw [hx] at h; simp only [ofOpt, Outcome.ok.injEq] at h; subst h
            exact hexOfBytes_of_decodeHex _ _ hx
        | true =>
          simp only [if_true] at h
          cases hx : decodeHex (toLower (removeByte dash s)) with
          | none => rw [hx] at h; simp [ofOpt] at h
          | some m' =>
            rw [hx] at h; simp only [ofOpt, Outcome.ok.injEq] at h; subst h
            rw [hexOfBytes_of_decodeHex _ _ hx, toLower_idem]
      have hm : m.length = 16 := by
        have := length_hexOfBytes m
        rw [hd, length_toLower, hl] at this; omega
      refine ⟨hm, ?_⟩
      obtain ⟨m0, m1, m2, m3, m4, m5, m6, m7, m8, m9, m10, m11, m12, m13, m14, m15, rest, rfl⟩ :=
        exists_cons16 m (by omega)
      have : rest = [] := by
        simp only [List.length_cons] at hm
        exact List.eq_nil_of_length_eq_zero (by omega)
      subst this
      rw [textOf16_eq, hd, ← toLower_hyph, ← hs]
    · rw [if_pos (by simpa using hl)] at h; simp at h

/-- **bytes → text → bytes**: any spelling (upper/lower case) of the text of 16 bytes is accepted and gives them back -/
theorem textTo16_of_text (lf : Bool) (s m : Bytes) (hm : m.length = 16) (h : toLower s = textOf16 m) :
    textTo16 lf s = .ok m := by
  obtain ⟨m0, m1, m2, m3, m4, m5, m6, m7, m8, m9, m10, m11, m12, m13, m14, m15, rest, rfl⟩ :=
    exists_cons16 m (by omega)
  have : rest = [] := by
    simp only [List.length_cons] at hm
    exact List.eq_nil_of_length_eq_zero (by omega)
  subst this
  rw [textOf16_eq] at h
  generalize hx : hexOfBytes [m0, m1, m2, m3, m4, m5, m6, m7, m8, m9, m10, m11, m12, m13, m14, m15] = x at h
  have hxl : x.length = 32 := by rw [← hx, length_hexOfBytes]; rfl
  have hxd : ∀ c ∈ x, c ≠ dash := by
    intro c hc; rw [← hx] at hc
    exact ne_dash_of_isLowerHex c (isLowerHex_of_mem_hexOfBytes _ c hc)
  -- the guard
  have hlen : s.length = 36 := by rw [← length_toLower, h, length_hyph x hxl]
  have at_dash : ∀ i : Nat, (hyph x)[i]? = some dash → s[i]? = some dash := by
    intro i hi
    rw [← h] at hi
    simp only [toLower, List.getElem?_map] at hi
    cases hs : s[i]? with
    | none => rw [hs] at hi; simp at hi
    | some c =>
      rw [hs] at hi
      simp only [Option.map_some, Option.some.injEq] at hi
      rw [lowerByte_eq_dash c hi]
  have pos : ∀ i : Nat, i = 8 ∨ i = 13 ∨ i = 18 ∨ i = 23 → (hyph x)[i]? = some dash := by
    intro i hi
    have l1 : (x.take 8).length = 8 := by simp; omega
    have l2 : ((x.drop 8).take 4).length = 4 := by simp; omega
    have l3 : ((x.drop 12).take 4).length = 4 := by simp; omega
    have l4 : ((x.drop 16).take 4).length = 4 := by simp; omega
    unfold hyph
    rcases hi with rfl | rfl | rfl | rfl
    · rw [List.getElem?_append_right (by omega), l1]; rfl
    · rw [List.getElem?_append_right (by omega), l1]
      simp only [Nat.reduceSub, List.getElem?_cons_succ]
      rw [List.getElem?_append_right (by omega), l2]; rfl
    · rw [List.getElem?_append_right (by omega), l1]
      simp only [Nat.reduceSub, List.getElem?_cons_succ]
      rw [List.getElem?_append_right (by omega), l2]
      simp only [Nat.reduceSub, List.getElem?_cons_succ]
      rw [List.getElem?_append_right (by omega), l3]; rfl
    · rw [List.getElem?_append_right (by omega), l1]
      simp only [Nat.reduceSub, List.getElem?_cons_succ]
      rw [List.getElem?_append_right (by omega), l2]
      simp only [Nat.reduceSub, List.getElem?_cons_succ]
      rw [List.getElem?_append_right (by omega), l3]
      simp only [Nat.reduceSub, List.getElem?_cons_succ]
      rw [List.getElem?_append_right (by omega), l4]; rfl
  have hg : hyphensMisplaced s = false := by
    simp only [hyphensMisplaced, Bool.or_eq_false_iff, bne_eq_false_iff_eq]
    exact ⟨⟨⟨⟨hlen, at_dash 8 (pos 8 (by simp))⟩, at_dash 13 (pos 13 (by simp))⟩, at_dash 18 (pos 18 (by simp))⟩,
      at_dash 23 (pos 23 (by simp))⟩
  -- the 32 remaining characters
  have hlow : toLower (removeByte dash s) = x := by
    rw [toLower_removeByte_dash, h, removeByte_hyph x hxd]
  have hl : (removeByte dash s).length = 32 := by rw [← length_toLower, hlow, hxl]
  unfold textTo16
  rw [hg]
  simp only [Bool.false_eq_true, if_false]
  rw [if_neg (by simp [hl])]
  cases lf with
  | false =>
    simp only [Bool.false_eq_true, if_false]
    rw [decodeHex_hexOfBytes_lower _ _ (by rw [hlow, hx])]; rfl
  | true =>
    simp only [if_true]
    rw [decodeHex_hexOfBytes_lower _ _ (by rw [toLower_idem, hlow, hx])]; rfl

/-- the text of 16 bytes is in canonical form: 36 characters, lower-case hex and four hyphens -/
theorem textOf16_lower (m : Bytes) (hm : m.length = 16) : toLower (textOf16 m) = textOf16 m := by
  obtain ⟨m0, m1, m2, m3, m4, m5, m6, m7, m8, m9, m10, m11, m12, m13, m14, m15, rest, rfl⟩ :=
    exists_cons16 m (by omega)
  have : rest = [] := by
    simp only [List.length_cons] at hm
    exact List.eq_nil_of_length_eq_zero (by omega)
  subst this
  rw [textOf16_eq, toLower_hyph]
  congr 1
  exact toLower_eq_self _ (fun c hc => lowerByte_of_isLowerHex c (isLowerHex_of_mem_hexOfBytes _ c hc))

end Manticore.C13
