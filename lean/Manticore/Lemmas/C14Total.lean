/-
  C14 helper lemmas, totality: after fixes/C07-*.diff no decoding function of the key-credential
  model reaches a panic branch.  Used by Props/C14 (a corrupted blob is rejected, not a crash) and by
  Props/C07 (every decoder is total).  Core Lean only.
-/
import Manticore.Model.C14
namespace Manticore.C14
open Manticore

theorem guid_fromRawBytes_ok (d : Bytes) : ∃ g, Guid.fromRawBytes d = .ok g := by
  unfold Guid.fromRawBytes
  split <;> exact ⟨_, rfl⟩

theorem readTicks_ok (d : Bytes) : ∃ t, readTicks d = .ok t := by
  unfold readTicks
  split <;> exact ⟨_, rfl⟩

theorem rsa_fromBytes_ok (rk : RSAKeyMaterial) (v e : Bytes) : ∃ r, RSAKeyMaterial.fromBytes rk v e = .ok r := by
  unfold RSAKeyMaterial.fromBytes
  simp only []
  split
  · exact ⟨_, rfl⟩
  split
  · exact ⟨_, rfl⟩
  split <;> exact ⟨_, rfl⟩

/-- the parsed fields are sub-slices of the entry: their lengths add up to no more than its length -/
theorem rsa_fromBytes_bounded (rk r : RSAKeyMaterial) (v e : Bytes)
    (h : RSAKeyMaterial.fromBytes rk v e = .ok (r, false)) :
    r.rawBytes = v ∧ 24 + r.modulus.length + r.prime1.length + r.prime2.length ≤ v.length := by
  unfold RSAKeyMaterial.fromBytes at h
  simp only [] at h
  split at h
  · cases h
  split at h
  · cases h
  split at h
  · cases h
  next h24 _ hs =>
    simp only [Outcome.ok.injEq, Prod.mk.injEq, and_true] at h
    subst h
    refine ⟨rfl, ?_⟩
    simp only [List.length_take, List.length_drop]
    omega

theorem applyEntry_no_panic (k : KeyCredential) (t : UInt8) (d e : Bytes) : applyEntry k t d e ≠ .panic := by
  unfold applyEntry
  split
  · simp
  split
  · simp
  split
  · obtain ⟨⟨m, f⟩, hr⟩ := rsa_fromBytes_ok k.material d e
    rw [hr]; cases f <;> simp
  split
  · split <;> simp
  split
  · split <;> simp
  split
  · split
    · simp
    · obtain ⟨g, hg⟩ := guid_fromRawBytes_ok d
      rw [hg]; simp
  split
  · simp
  split
  · split
    · simp
    · obtain ⟨x, hx⟩ := readTicks_ok d
      rw [hx]; simp
  split
  · split
    · simp
    · obtain ⟨x, hx⟩ := readTicks_ok d
      rw [hx]; simp
  · simp

theorem parseLoop_no_panic (k : KeyCredential) (rem : Bytes) : parseLoop k rem ≠ .panic := by
  induction h : rem.length using Nat.strongRecOn generalizing k rem with
  | _ n ih =>
    unfold parseLoop
    split
    · next l0 l1 t x rest' =>
      simp only []
      split
      · simp
      · next hn =>
        cases ha : applyEntry k t (List.take (le16 l0 l1).toNat (x :: rest')) (List.drop (le16 l0 l1).toNat (x :: rest')) with
        | ok k' =>
          simp only []
          exact ih _ (by subst h; simp [List.length_drop]; omega) k' _ rfl
        | err => simp
        | panic => exact absurd ha (applyEntry_no_panic _ _ _ _)
    · simp

/-- `KeyCredential.FromBytes` never panics -/
theorem fromBytes_no_panic (k : KeyCredential) (b : Bytes) : KeyCredential.fromBytes k b ≠ .panic := by
  unfold KeyCredential.fromBytes
  split
  · exact parseLoop_no_panic _ _
  · simp

theorem hashLoop_ok (rem data : Bytes) : ∃ r, hashLoop rem data = .ok r := by
  induction h : rem.length using Nat.strongRecOn generalizing rem data with
  | _ n ih =>
    unfold hashLoop
    split
    · next l0 l1 t x rest' =>
      simp only []
      split
      · exact ⟨_, rfl⟩
      · exact ih _ (by subst h; simp [List.length_drop]; omega) _ _ rfl
    · exact ⟨_, rfl⟩

theorem toBytes_cases (k : KeyCredential) : k.toBytes = .err ∨ ∃ b, k.toBytes = .ok b ∧ 4 ≤ b.length := by
  unfold KeyCredential.toBytes
  by_cases hi : k.identifier.length > 0
  · simp only [hi, if_true]
    cases toBinaryId k.identifier k.version with
    | none => left; rfl
    | some x => right; exact ⟨_, rfl, by simp [putLe32]⟩
  · simp only [hi, if_false]
    right; exact ⟨_, rfl, by simp [putLe32]⟩

theorem toBytes_no_panic (k : KeyCredential) : k.toBytes ≠ .panic := by
  rcases toBytes_cases k with h | ⟨b, h, _⟩ <;> rw [h] <;> simp

theorem toBytes_length (k : KeyCredential) (b : Bytes) (h : k.toBytes = .ok b) : 4 ≤ b.length := by
  rcases toBytes_cases k with h' | ⟨b', h', hl⟩
  · rw [h'] at h; cases h
  · rw [h'] at h; cases h; exact hl

theorem hashInput_ok (k : KeyCredential) : ∃ r, hashInput k = .ok r := by
  unfold hashInput
  by_cases hlen : k.rawBytes.length < 4
  · simp only [hlen, if_true]
    rcases toBytes_cases k with hb | ⟨rb, hb, h4⟩
    · rw [hb]; exact ⟨_, rfl⟩
    · rw [hb]
      simp only []
      rw [sliceFrom, if_pos h4]
      obtain ⟨r, hr⟩ := hashLoop_ok (rb.drop 4) []
      simp [hr]
  · simp only [hlen, if_false]
    rw [sliceFrom, if_pos (by omega)]
    obtain ⟨r, hr⟩ := hashLoop_ok (k.rawBytes.drop 4) []
    simp [hr]

/-- `ComputeKeyHash` always returns (a hash, or nil when `ToBytes` fails), whatever the hash function -/
theorem computeKeyHash_ok (H : Bytes → Bytes) (k : KeyCredential) : ∃ r, computeKeyHash H k = .ok r := by
  unfold computeKeyHash computeKeyHashA
  obtain ⟨⟨k', o⟩, hh⟩ := hashInput_ok k
  rw [hh]
  cases o <;> exact ⟨_, rfl⟩

/-- `CheckIntegrity` always returns a verdict -/
theorem checkIntegrity_ok (H : Bytes → Bytes) (k : KeyCredential) : ∃ r, checkIntegrity H k = .ok r := by
  obtain ⟨⟨h, k'⟩, hc⟩ := computeKeyHash_ok H k
  unfold computeKeyHash at hc
  unfold checkIntegrity checkIntegrityA
  rw [Ask.run_bind, hc]
  exact ⟨_, rfl⟩

/-- `NewKeyCredential` never panics (also for key material beyond a 16-bit entry length) -/
theorem newKeyCredential_ok (H : Bytes → Bytes) (v : UInt32) (ids : Bytes) (m : RSAKeyMaterial)
    (g : Guid) (t1 t2 : UInt64) : ∃ k, newKeyCredential H v ids m g t1 t2 = .ok k := by
  unfold newKeyCredential newKeyCredentialA
  simp only []
  rw [Ask.run_bind]
  obtain ⟨⟨h, k'⟩, hc⟩ := computeKeyHash_ok H
    { version := v, identifier := ids, keyHash := [], material := m, usage := 1, legacyUsage := [], source := 0,
      cki := { version := 1, flags := 0 }, deviceId := g, lastLogon := t1, creation := t2, rawBytes := [] }
  unfold computeKeyHash at hc
  rw [hc]
  exact ⟨_, rfl⟩

/-- `DNWithBinary.Parse` never panics -/
theorem dnParse_no_panic (raw : Bytes) : dnParse raw ≠ .panic := by
  unfold dnParse
  repeat' split
  all_goals simp

/-- `DNWithBinary.Parse`: both results are no longer than the input -/
theorem splitColon_length (s a b : Bytes) (h : splitColon s = some (a, b)) : a.length + b.length + 1 = s.length := by
  induction s generalizing a b with
  | nil => simp [splitColon] at h
  | cons c r ih =>
    unfold splitColon at h
    split at h
    · cases h; simp
    · cases hr : splitColon r with
      | none => simp [hr] at h
      | some p =>
        obtain ⟨a', b'⟩ := p
        simp only [hr, Option.some.injEq, Prod.mk.injEq] at h
        obtain ⟨rfl, rfl⟩ := h
        have := ih a' b' hr
        simp; omega

theorem hexDecode_length : ∀ (s b : Bytes), hexDecode s = some b → 2 * b.length = s.length
  | [], b, h => by simp [hexDecode] at h; subst h; rfl
  | [_], b, h => by simp [hexDecode] at h
  | a :: c :: rest, b, h => by
    unfold hexDecode at h
    split at h
    · next x y r hx hy hr =>
      cases h
      have := hexDecode_length rest r hr
      simp; omega
    · cases h

theorem dnParse_bounded (raw bin dn : Bytes) (h : dnParse raw = .ok (bin, dn)) :
    2 * bin.length + dn.length ≤ raw.length := by
  unfold dnParse at h
  split at h
  · next p0 r1 h1 =>
    split at h
    · next p1 r2 h2 =>
      split at h
      · next p2 p3 h3 =>
        split at h
        · split at h
          · next b hb =>
            split at h
            · cases h
            · simp only [Outcome.ok.injEq, Prod.mk.injEq] at h
              obtain ⟨rfl, rfl⟩ := h
              have l1 := splitColon_length _ _ _ h1
              have l2 := splitColon_length _ _ _ h2
              have l3 := splitColon_length _ _ _ h3
              have l4 := hexDecode_length _ _ hb
              omega
          · cases h
        · cases h
      · cases h
    · cases h
  · cases h

end Manticore.C14
