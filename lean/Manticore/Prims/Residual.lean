/-
  Residual expressions (DESIGN.md §2 (ii)).  Primitives whose output only flows into the result or
  into another primitive's key/message (MD5, SHA-1/256, HMAC, PBKDF2, AES-CBC) are not re-implemented
  in Lean.  A model or spec that uses one returns a small expression tree; the harness evaluates the
  `prim` nodes with the Go standard library / x/crypto before comparing with the library's bytes, and
  theorems quantify over an arbitrary interpretation `I` of the primitive names.
-/
import Manticore.Basic
namespace Manticore

/-- argument / result values of primitives -/
inductive Val where
  | bytes (b : Bytes)
  | int (i : Int)
  deriving Repr, DecidableEq, Inhabited

inductive Res where
  | lit (b : Bytes)
  | int (i : Int)
  | cat (a b : Res)
  /-- `hex.EncodeToString` (lower-case ASCII) of a residual value -/
  | hex (a : Res)
  | prim (name : String) (args : List Res)
  deriving Repr, Inhabited

namespace Res

def hexDigitByte (n : Nat) : UInt8 := if n < 10 then UInt8.ofNat (48 + n) else UInt8.ofNat (87 + n)

/-- `hex.EncodeToString` as ASCII bytes -/
def hexEncode (b : Bytes) : Bytes := b.flatMap (fun x => [hexDigitByte (x.toNat / 16), hexDigitByte (x.toNat % 16)])

def Val.toBytes : Val → Bytes
  | .bytes b => b
  | .int _ => []

/-- value of a residual under an interpretation of the primitive names -/
def eval (I : String → List Val → Bytes) : Res → Val
  | lit b => .bytes b
  | int i => .int i
  | cat a b => .bytes (Val.toBytes (eval I a) ++ Val.toBytes (eval I b))
  | hex a => .bytes (hexEncode (Val.toBytes (eval I a)))
  | prim name args => .bytes (I name (args.map (eval I)))

def evalBytes (I : String → List Val → Bytes) (r : Res) : Bytes := Val.toBytes (eval I r)

/-- line-protocol rendering: `HEX` | `-` | `#INT` | `name(arg,…)` -/
def render : Res → String
  | lit b => toHex b
  | int i => "#" ++ toString i
  | cat a b => "cat(" ++ render a ++ "," ++ render b ++ ")"
  | hex a => "hex(" ++ render a ++ ")"
  | prim name args => name ++ "(" ++ ",".intercalate (args.map render) ++ ")"

/-- does the tree contain a primitive node (if not, it can be printed as plain bytes) -/
def hasPrim : Res → Bool
  | lit _ => false
  | int _ => false
  | cat a b => hasPrim a || hasPrim b
  | hex a => hasPrim a
  | prim _ _ => true

end Res
end Manticore
