/-
  Residual expressions (DESIGN §2, "Stdlib / third-party calls", mechanism (ii)).

  Primitives of the Go standard library / x/crypto whose output only flows to the result or into
  another primitive (MD4, MD5-HMAC, DES, hex, and the Unicode-table driven `strings.ToUpper` /
  UTF-16 encoder) are not re-implemented in Lean.  A model returns a small expression tree; the
  harness evaluates it with the real primitives before comparing with the library's bytes; theorems
  quantify over an arbitrary interpretation `Prims` of the primitives.
-/
import Manticore.Basic
namespace Manticore

/-- unary primitives -/
inductive Prim1 where
  | md4        -- golang.org/x/crypto/md4
  | upper      -- strings.ToUpper
  | utf16le    -- unicode/utf16 encoder, little-endian bytes
  | hex        -- encoding/hex.EncodeToString (lower case)
  deriving DecidableEq, Repr

/-- binary primitives (key first) -/
inductive Prim2 where
  | hmacMd5    -- crypto/hmac with crypto/md5
  | des        -- crypto/des: one block under an 8-byte key (parity bits ignored)
  | des7       -- DES under a 56-bit (7-byte) key, as MS-NLMP writes `DES(K, D)`
  deriving DecidableEq, Repr

inductive RExpr where
  | lit (b : Bytes)
  | cat (a b : RExpr)
  | take (n : Nat) (a : RExpr)
  | drop (n : Nat) (a : RExpr)
  | p1 (p : Prim1) (a : RExpr)
  | p2 (p : Prim2) (a b : RExpr)
  deriving Repr

/-- an interpretation of the primitives -/
structure Prims where
  md4 : Bytes → Bytes
  upper : Bytes → Bytes
  utf16le : Bytes → Bytes
  hex : Bytes → Bytes
  hmacMd5 : Bytes → Bytes → Bytes
  des : Bytes → Bytes → Bytes
  des7 : Bytes → Bytes → Bytes

namespace RExpr

def eval (P : Prims) : RExpr → Bytes
  | lit b => b
  | cat a b => eval P a ++ eval P b
  | take n a => (eval P a).take n
  | drop n a => (eval P a).drop n
  | p1 .md4 a => P.md4 (eval P a)
  | p1 .upper a => P.upper (eval P a)
  | p1 .utf16le a => P.utf16le (eval P a)
  | p1 .hex a => P.hex (eval P a)
  | p2 .hmacMd5 a b => P.hmacMd5 (eval P a) (eval P b)
  | p2 .des a b => P.des (eval P a) (eval P b)
  | p2 .des7 a b => P.des7 (eval P a) (eval P b)

/-- line-protocol rendering: hex literal (`-` when empty) or `name(arg,…)` — one token, no spaces -/
def render : RExpr → String
  | lit b => toHex b
  | cat a b => "cat(" ++ render a ++ "," ++ render b ++ ")"
  | take n a => "take(" ++ toString n ++ "," ++ render a ++ ")"
  | drop n a => "drop(" ++ toString n ++ "," ++ render a ++ ")"
  | p1 .md4 a => "md4(" ++ render a ++ ")"
  | p1 .upper a => "upper(" ++ render a ++ ")"
  | p1 .utf16le a => "utf16le(" ++ render a ++ ")"
  | p1 .hex a => "hex(" ++ render a ++ ")"
  | p2 .hmacMd5 a b => "hmac_md5(" ++ render a ++ "," ++ render b ++ ")"
  | p2 .des a b => "des(" ++ render a ++ "," ++ render b ++ ")"
  | p2 .des7 a b => "des7(" ++ render a ++ "," ++ render b ++ ")"

@[simp] theorem eval_lit (P : Prims) (b : Bytes) : eval P (lit b) = b := rfl
@[simp] theorem eval_cat (P : Prims) (a b : RExpr) : eval P (cat a b) = eval P a ++ eval P b := rfl
@[simp] theorem eval_take (P : Prims) (n : Nat) (a : RExpr) : eval P (take n a) = (eval P a).take n := rfl
@[simp] theorem eval_drop (P : Prims) (n : Nat) (a : RExpr) : eval P (drop n a) = (eval P a).drop n := rfl
@[simp] theorem eval_md4 (P : Prims) (a : RExpr) : eval P (p1 .md4 a) = P.md4 (eval P a) := rfl
@[simp] theorem eval_upper (P : Prims) (a : RExpr) : eval P (p1 .upper a) = P.upper (eval P a) := rfl
@[simp] theorem eval_utf16le (P : Prims) (a : RExpr) : eval P (p1 .utf16le a) = P.utf16le (eval P a) := rfl
@[simp] theorem eval_hex (P : Prims) (a : RExpr) : eval P (p1 .hex a) = P.hex (eval P a) := rfl
@[simp] theorem eval_hmac (P : Prims) (a b : RExpr) : eval P (p2 .hmacMd5 a b) = P.hmacMd5 (eval P a) (eval P b) := rfl
@[simp] theorem eval_des (P : Prims) (a b : RExpr) : eval P (p2 .des a b) = P.des (eval P a) (eval P b) := rfl
@[simp] theorem eval_des7 (P : Prims) (a b : RExpr) : eval P (p2 .des7 a b) = P.des7 (eval P a) (eval P b) := rfl

end RExpr
end Manticore
