/-
  `strings.Split(s, ".")` and `strings.Join(ls, ".")` on byte strings, with the facts the DNS-style
  codecs (C09 LLMNR names, C10 NetBIOS scope identifiers) need about them.  Core Lean only.
-/
import Manticore.Basic
namespace Manticore

def dot : UInt8 := 46



/-- `strings.Split(s, ".")` (never the empty list) -/
def splitDots : Bytes → List Bytes
  | [] => [[]]
  | c :: r =>
    if c = dot then [] :: splitDots r
    else
      match splitDots r with
      | [] => [[c]]
      | l :: ls => (c :: l) :: ls

/-- `strings.Join(ls, ".")` -/
def joinDots : List Bytes → Bytes
  | [] => []
  | [l] => l
  | l :: l' :: ls => l ++ dot :: joinDots (l' :: ls)

theorem splitDots_nodot (l : Bytes) (h : dot ∉ l) : splitDots l = [l] := by
  induction l with
  | nil => rfl
  | cons c l ih =>
    have hc : c ≠ dot := fun e => h (by simp [e])
    simp only [splitDots, if_neg hc, ih (fun hm => h (by simp [hm]))]

theorem splitDots_append_dot (l r : Bytes) (h : dot ∉ l) : splitDots (l ++ dot :: r) = l :: splitDots r := by
  induction l with
  | nil => simp [splitDots]
  | cons c l ih =>
    have hc : c ≠ dot := fun e => h (by simp [e])
    simp only [List.cons_append, splitDots, if_neg hc, ih (fun hm => h (by simp [hm]))]

theorem splitDots_joinDots (ls : List Bytes) (hne : ls ≠ []) (h : ∀ l ∈ ls, dot ∉ l) :
    splitDots (joinDots ls) = ls := by
  induction ls with
  | nil => exact absurd rfl hne
  | cons l ls ih =>
    cases ls with
    | nil => simp only [joinDots]; exact splitDots_nodot l (h l (by simp))
    | cons l' ls =>
      simp only [joinDots]
      rw [splitDots_append_dot _ _ (h l (by simp)), ih (by simp) (fun x hx => h x (by simp [hx]))]

theorem joinDots_head (l : Bytes) (ls : List Bytes) : ∃ r, joinDots (l :: ls) = l ++ r := by
  cases ls with
  | nil => exact ⟨[], by simp [joinDots]⟩
  | cons l' ls => exact ⟨dot :: joinDots (l' :: ls), by simp [joinDots]⟩

theorem joinDots_append (a b : List Bytes) (ha : a ≠ []) (hb : b ≠ []) :
    joinDots (a ++ b) = joinDots a ++ dot :: joinDots b := by
  induction a with
  | nil => exact absurd rfl ha
  | cons l a ih =>
    cases a with
    | nil =>
      cases b with
      | nil => exact absurd rfl hb
      | cons x b => simp [joinDots]
    | cons l' a =>
      have := ih (by simp)
      simp only [List.cons_append] at this
      simp only [List.cons_append, joinDots, this, List.append_assoc]

theorem splitDots_nodot_pieces (s : Bytes) : ∀ l ∈ splitDots s, dot ∉ l := by
  induction s with
  | nil => intro l hl; simp [splitDots] at hl; subst hl; simp
  | cons c s ih =>
    intro l hl
    simp only [splitDots] at hl
    split at hl
    · simp only [List.mem_cons] at hl
      rcases hl with rfl | hl
      · simp
      · exact ih l hl
    · rename_i hc
      split at hl
      · simp at hl; subst hl; simpa using (fun e => hc e.symm)
      · rename_i l0 ls0 heq
        simp only [List.mem_cons] at hl
        rcases hl with rfl | hl
        · have := ih l0 (by rw [heq]; simp)
          intro hm; simp only [List.mem_cons] at hm
          rcases hm with rfl | hm
          · exact hc rfl
          · exact this hm
        · exact ih l (by rw [heq]; simp [hl])

theorem splitDots_ne_nil (s : Bytes) : splitDots s ≠ [] := by
  cases s with
  | nil => simp [splitDots]
  | cons c s =>
    simp only [splitDots]
    split
    · simp
    · split <;> simp

/-- `Join(Split(s))` is `s` -/
theorem joinDots_splitDots (s : Bytes) : joinDots (splitDots s) = s := by
  induction s with
  | nil => rfl
  | cons c s ih =>
    simp only [splitDots]
    split
    · rename_i hc
      cases hs : splitDots s with
      | nil => exact absurd hs (splitDots_ne_nil s)
      | cons l ls => rw [hs] at ih; simp [joinDots, hc, ih]
    · cases hs : splitDots s with
      | nil => exact absurd hs (splitDots_ne_nil s)
      | cons l ls =>
        rw [hs] at ih
        cases ls with
        | nil => simp only [joinDots] at ih ⊢; rw [ih]
        | cons l' ls => simp only [joinDots, List.cons_append] at ih ⊢; rw [ih]

end Manticore
