/-
  DES (FIPS 46-3), executable, in the textbook structure: initial permutation, 16 Feistel rounds
  f(R,K) = P(S(E(R) xor K)), final permutation; key schedule PC-1, 28-bit rotations, PC-2.
  The tables are transcribed from Go's crypto/des/const.go (`DESTables.lean`) and keep Go's
  convention: a table entry is the index (from the least significant bit) of the source bit.

  Trust: this file is an executable *reference primitive* (DESIGN.md §2 (i)).  It is validated at
  build time by the vectors below and in every harness run against Go's crypto/des (`c01.des`).
-/
import Manticore.Basic
import Manticore.Prims.DESTables
namespace Manticore.DES

/-- Go's `permuteBlock`: output bit `len-1-position` is source bit `table[position]`. -/
def permute (table : List Nat) (src : UInt64) : UInt64 :=
  table.foldl (fun acc n => (acc <<< 1) ||| ((src >>> n.toUInt64) &&& 1)) 0

/-- circular left shift of a 28-bit half of the key schedule -/
def rot28 (x : UInt64) (r : Nat) : UInt64 :=
  ((x <<< r.toUInt64) ||| (x >>> (28 - r).toUInt64)) &&& 0xFFFFFFF

/-- the 16 pairs (C_i, D_i), i = 1..16, from (C_0, D_0) -/
def rotations : List Nat → UInt64 → UInt64 → List (UInt64 × UInt64)
  | [], _, _ => []
  | r :: rs, c, d => (rot28 c r, rot28 d r) :: rotations rs (rot28 c r) (rot28 d r)

/-- the 16 round keys (48 bits each) from the 56 key bits selected by PC-1 -/
def subkeysOfCD (cd : UInt64) : List UInt64 :=
  (rotations ksRotations (cd >>> 28) (cd &&& 0xFFFFFFF)).map
    (fun (p : UInt64 × UInt64) => permute permutedChoice2 ((p.1 <<< 28) ||| p.2))

def subkeys (key : UInt64) : List UInt64 := subkeysOfCD (permute permutedChoice1 key)

/-- S-box `i` (0..7) on a 6-bit input: row = outer two bits, column = middle four bits -/
def sbox (i : Nat) (six : UInt64) : UInt64 :=
  let row := (((six >>> 5) &&& 1) <<< 1) ||| (six &&& 1)
  let col := (six >>> 1) &&& 0xF
  (sBoxes.getD (64 * i + 16 * row.toNat + col.toNat) 0).toUInt64

/-- the cipher function f(R, K) -/
def f (r k : UInt64) : UInt64 :=
  let x := permute expansionFunction r ^^^ k
  let s : UInt64 := (List.range 8).foldl
    (fun (acc : UInt64) (i : Nat) => (acc <<< 4) ||| sbox i ((x >>> (42 - 6 * i).toUInt64) &&& 0x3F)) 0
  permute permutationFunction s

def round (lr : UInt64 × UInt64) (k : UInt64) : UInt64 × UInt64 := (lr.2, lr.1 ^^^ f lr.2 k)

/-- encryption of one 64-bit block under an explicit list of round keys -/
def cryptWith (ks : List UInt64) (block : UInt64) : UInt64 :=
  let ip := permute initialPermutation block
  let lr := ks.foldl round (ip >>> 32, ip &&& 0xFFFFFFFF)
  permute finalPermutation ((lr.2 <<< 32) ||| lr.1)

def encrypt (key block : UInt64) : UInt64 := cryptWith (subkeys key) block
def decrypt (key block : UInt64) : UInt64 := cryptWith (subkeys key).reverse block

/-- big-endian 64-bit word of (at most) the first 8 bytes, as `binary.BigEndian.Uint64` -/
def be64Of (b : Bytes) : UInt64 :=
  be64 (b.getD 0 0) (b.getD 1 0) (b.getD 2 0) (b.getD 3 0) (b.getD 4 0) (b.getD 5 0) (b.getD 6 0) (b.getD 7 0)

/-- `des.NewCipher(key).Encrypt(dst, block)` on 8-byte key and block -/
def encryptBytes (key block : Bytes) : Bytes := putBe64 (encrypt (be64Of key) (be64Of block))
def decryptBytes (key block : Bytes) : Bytes := putBe64 (decrypt (be64Of key) (be64Of block))

/-! ### build-time validation (standard vectors) -/

-- the worked example of every DES tutorial (Grabbe), and the NBS SP 500-20 style known answers
#guard encrypt 0x133457799BBCDFF1 0x0123456789ABCDEF == 0x85E813540F0AB405
#guard decrypt 0x133457799BBCDFF1 0x85E813540F0AB405 == 0x0123456789ABCDEF
#guard encrypt 0x0101010101010101 0x95F8A5E5DD31D900 == 0x8000000000000000   -- IP / E test
#guard encrypt 0x0101010101010101 0x8000000000000000 == 0x95F8A5E5DD31D900   -- inverse permutation
#guard encrypt 0x8001010101010101 0x0000000000000000 == 0x95A8D72813DAA94D   -- key permutation (PC-1/PC-2)
#guard encrypt 0x0101010101010102 0x0000000000000000 == 0x869EFD7F9F265A09
#guard encrypt 0x1046913489980131 0x0000000000000000 == 0x88D55E54F54C97B4   -- permutation P
#guard encrypt 0x7CA110454A1A6E57 0x01A1D6D039776742 == 0x690F5B0D9A26939B   -- S-box test
#guard encrypt 0x0131D9619DC1376E 0x5CD54CA83DEF57DA == 0x7A389D10354BD271
#guard encrypt 0x0123456789ABCDEF 0x4E6F772069732074 == 0x3FA40E8A984D4815   -- "Now is t"
-- the LM hash of the empty password: DES_{00…00}("KGS!@#$%")
#guard encryptBytes [0,0,0,0,0,0,0,0] [0x4B,0x47,0x53,0x21,0x40,0x23,0x24,0x25] ==
  [0xAA,0xD3,0xB4,0x35,0xB5,0x14,0x04,0xEE]

end Manticore.DES
