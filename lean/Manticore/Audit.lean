/-
  `#audit Ns` prints, as JSON lines, every theorem declared in a module whose name ends in the
  namespace's last component (i.e. the hand-written property file), with the axioms it depends on
  and its pretty-printed statement.  Used by `./check` for the L1 bookkeeping.
-/
import Lean
open Lean Elab Command Meta

elab "#audit " ns:ident : command => do
  let env ← getEnv
  let mut rows : Array (Name × Array Name × String) := #[]
  for (n, ci) in env.constants.toList do
    if ns.getId.isPrefixOf n && !n.isInternal then
      if let .thmInfo ti := ci then
        -- only theorems written in a Props module (excludes auto-generated lemmas of model files)
        let some modIdx := env.getModuleIdxFor? n | continue
        let modName := env.header.moduleNames[modIdx.toNat]!
        unless (`Manticore.Props).isPrefixOf modName do continue
        -- equation lemmas (`f.eq_1`, …) are generated on demand and carry no source range
        unless (← liftCoreM (findDeclarationRanges? n)).isSome do continue
        let axs ← Lean.collectAxioms n
        let stmt ← liftTermElabM do
          let f ← ppExpr ti.type
          pure (f.pretty 100000)
        rows := rows.push (n, axs, stmt)
  let sorted := rows.qsort (fun a b => a.1.toString < b.1.toString)
  for (n, axs, stmt) in sorted do
    let j := Json.mkObj [("theorem", Json.str n.toString),
      ("axioms", Json.arr (axs.map (fun a => Json.str a.toString))),
      ("statement", Json.str stmt)]
    IO.println j.compress
