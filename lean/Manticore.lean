import Manticore.Basic
import Manticore.Model.C16
