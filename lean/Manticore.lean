-- Root of the library. `./check --setup` builds the property modules explicitly
-- (`Manticore.Props.Cxx`), so nothing needs to be listed here.
import Manticore.Basic
