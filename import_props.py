#!/usr/bin/env python3
"""import_props.py <agent verif worktree> <ID>...: copy an agent's props_config entries into props/<ID>.py"""
import sys, pprint, importlib.util
wt=sys.argv[1]
s=importlib.util.spec_from_file_location("agent_props", wt+"/props_config.py"); m=importlib.util.module_from_spec(s); s.loader.exec_module(m)
for k in sys.argv[2:]:
    open('/verif/props/%s.py'%k,'w').write('# configuration of ./check for property %s (see props_config.py)\nCONFIG = '%k + pprint.pformat(m.PROPS[k], width=140, sort_dicts=False)+'\n')
    print("imported",k)
