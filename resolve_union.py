#!/usr/bin/env python3
"""Resolve a merge conflict by keeping both sides (union, order preserved, duplicate lines dropped)."""
import sys
for p in sys.argv[1:]:
    out=[]; seen=set()
    for l in open(p):
        if l.startswith('<<<<<<<') or l.startswith('=======') or l.startswith('>>>>>>>'): continue
        if l.strip() and l in seen and not l.startswith('#'): continue
        seen.add(l); out.append(l)
    open(p,'w').writelines(out)
