#!/usr/bin/env python3
"""Regenerates the per-property driver roots lean/Driver/Main_<ID>.lean and lean/lakefile.toml from props/*.py.
Each property gets its own executable (driver_<ID>) importing only the Driver modules it needs, so that a
model another property regenerates from /repo (Gen/*.lean) cannot break this property's check."""
import os, re, sys
V = os.path.dirname(os.path.abspath(__file__))
sys.path.insert(0, V)
from props_config import PROPS
d = os.path.join(V, 'lean', 'Driver')
for f in os.listdir(d):
    if f.startswith('Main'):
        os.remove(os.path.join(d, f))
open(os.path.join(d, 'Loop.lean'), 'w').write('''import Std.Data.HashMap
import Driver.Util
namespace Driver

def mkTable (es : List Entry) : Std.HashMap String Handler :=
  es.foldl (fun m e => m.insert (e.kind ++ " " ++ e.op) e.run) {}

def step (table : Std.HashMap String Handler) (line : String) : String :=
  match (line.trimAscii.toString.splitOn " ").filter (· ≠ "") with
  | k :: op :: args =>
    match table.get? (k ++ " " ++ op) with
    | some h => (h args).getD "bad-op"
    | none => "bad-op"
  | _ => "bad-op"

partial def loop (table : Std.HashMap String Handler) (hin hout : IO.FS.Stream) : IO Unit := do
  let line ← hin.getLine
  if line.isEmpty then return ()
  hout.putStrLn (step table line)
  loop table hin hout

def run (es : List Entry) : IO Unit := do
  let hin ← IO.getStdin
  let hout ← IO.getStdout
  loop (mkTable es) hin hout
  hout.flush

end Driver
''')
lake = '''name = "manticore"
version = "0.1.0"
defaultTargets = ["Manticore"]

[[lean_lib]]
name = "Manticore"

[[lean_lib]]
name = "Driver"
'''
for pid in sorted(PROPS):
    mods = PROPS[pid].get('drivers', [pid])
    src = 'import Driver.Loop\n' + ''.join('import Driver.%s\n' % m for m in mods)
    src += '\ndef main : IO Unit := Driver.run (' + ' ++ '.join('Driver.%s.entries' % m for m in mods) + ')\n'
    open(os.path.join(d, 'Main_%s.lean' % pid), 'w').write(src)
    lake += '\n[[lean_exe]]\nname = "driver_%s"\nroot = "Driver.Main_%s"\n' % (pid, pid)
open(os.path.join(V, 'lean', 'lakefile.toml'), 'w').write(lake)
print(sorted(PROPS))
