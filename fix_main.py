#!/usr/bin/env python3
"""Rewrites lean/Driver/Main.lean from the Driver/*.lean files present (one import and one entries term each)."""
import os, re
d='/verif/lean/Driver' if len(os.sys.argv)<2 else os.sys.argv[1]
mods=sorted(f[:-5] for f in os.listdir(d) if f.endswith('.lean') and f not in ('Main.lean','Util.lean'))
mods=[m for m in mods if re.search(r'^def entries', open(os.path.join(d,m+'.lean')).read(), re.M)]
out='import Std.Data.HashMap\nimport Driver.Util\n'+''.join('import Driver.%s\n'%m for m in mods)
out+='open Driver\n\ndef allEntries : List Entry :=\n  '+'\n  ++ '.join('Driver.%s.entries'%m for m in mods)+'\n'
out+='''
def table : Std.HashMap String Handler :=
  allEntries.foldl (fun m e => m.insert (e.kind ++ " " ++ e.op) e.run) {}

def step (line : String) : String :=
  match (line.trimAscii.toString.splitOn " ").filter (· ≠ "") with
  | k :: op :: args =>
    match table.get? (k ++ " " ++ op) with
    | some h => (h args).getD "bad-op"
    | none => "bad-op"
  | _ => "bad-op"

partial def loop (hin hout : IO.FS.Stream) : IO Unit := do
  let line ← hin.getLine
  if line.isEmpty then return ()
  hout.putStrLn (step line)
  loop hin hout

def main : IO Unit := do
  let hin ← IO.getStdin
  let hout ← IO.getStdout
  loop hin hout
  hout.flush
'''
open(os.path.join(d,'Main.lean'),'w').write(out)
print(mods)
