#!/bin/bash
# apply_fix.sh <patch.diff> <patch.msg>: apply a proposed repair to /repo as one `fix:` commit after the suite passes
set -e
diff=$1; msg=$2
cd /repo
git apply --check "$diff" || { echo "PATCH DOES NOT APPLY: $diff"; exit 1; }
git apply "$diff"
gofmt -l $(git diff --name-only | grep '\.go$') || true
go build ./... || { echo BUILD FAILED; git checkout -- .; exit 1; }
if ! go test -mod=mod -vet=off -count=1 ./... > /tmp/me/fix_test.log 2>&1; then
  grep -v "^ok\|no test files" /tmp/me/fix_test.log | head -30; echo TESTS FAILED; git checkout -- .; git clean -fdq; exit 1
fi
git add -A
git commit -q -F "$msg"
git log --oneline | head -1
