#!/bin/bash
# merge_agent.sh <agent> <ID>...: merge branch agent-<agent> into main, resolving the shared files mechanically
a=$1; shift
cd /verif
git merge --no-commit agent-$a > /tmp/me/merge.log 2>&1 || true
git checkout --ours props_config.py 2>/dev/null; git add props_config.py
python3 import_props.py /tmp/$a/verif "$@"
for f in $(git diff --name-only --diff-filter=U); do
  case $f in
    KNOWN_FINDINGS.txt) python3 resolve_union.py $f; git add $f;;
    lean/Driver/Main.lean|MANIFEST.json) git checkout --ours $f 2>/dev/null; git add $f;;
    evidence/*) git checkout --theirs $f; git add $f;;
    *) echo "UNRESOLVED: $f";;
  esac
done
python3 fix_main.py > /dev/null
python3 mkmanifest.py
git diff --name-only --diff-filter=U
