# Per-property configuration of ./check: generated facts, assumptions, what counts as a case.
PROPS = {
    "C16": {
        "gen": [],
        "rule": "cases = binary SIDs (every count 0..15 x boundary authorities exhaustively, then random counts/values, "
                "truncations, oversized counts, wrong revisions, trailing bytes, random bytes) and distinguished names "
                "(random RDN sequences in AD text form with escaped specials incl. '\\,DC=' inside values, plus raw text); "
                "distinct = distinct input line; non-trivial = implementation output is a non-empty value",
        "assumptions": ["fmt %d and strings.Join/Split/HasPrefix/TrimPrefix/TrimSuffix behave as modelled",
                        "Lean's Nat.repr is taken as the definition of decimal notation"],
        "trusted": [],
        "technique": "Lean 4 proof (induction over the sub-authority list / RDN list) about a hand model; model tied to the Go code by differential correspondence; spec oracle on the same inputs",
        "level_text": "Theorems sid_string_spec (all authorities < 2^48, all sub-authority lists up to 255, all trailing bytes), sid_total "
                      "(no input panics), sid_short_or_wrong_revision_is_empty and dn_domain_spec (all RDN sequences in AD text form) are "
                      "proved in Lean for all inputs about a hand-written model of ParseSIDFromBytes and GetDomainFromDistinguishedName; "
                      "the model is tied to the code by running both on the same generated inputs on every run, and the "
                      "implementation is compared with an independent MS-DTYP reading of the same bytes.",
        "level_note": "Trusted: Lean kernel; axioms propext, Classical.choice, Quot.sound; the hand model is tied to the Go code only by "
                      "differential testing (bounded); fmt/strings stdlib semantics as modelled; Nat.repr as decimal notation.",
    },
    "C09": {
        "gen": [],
        "rule": "cases = (1) names: fixed grid (root, '.', empty labels, 63/64-byte labels, wire length 254..258) + random valid label "
                "lists over arbitrary bytes with lengths up to 63/255 + odd strings; (2) Encode->DecodeMessage round trips of structured "
                "messages (all header words biased to boundaries, 0..N entries in each of the four sections incl. a 3^4 section-size grid, "
                "RDATA 0..65535 and beyond, names drawn from a pool so that suffixes repeat, some unrepresentable names); (3) DecodeMessage / "
                "DecodeDomainName on wires produced by an independent compressing serializer (greedy and random admissible pointer placement: "
                "whole name, after literal labels, to a pointer (chain), to a root octet) and by miekg/dns with and without compression; "
                "(4) pointers not strictly backwards (self, forward, into the own name, mutual, hand-built chains and chain loops), arbitrary "
                "backward targets, reserved label bits, every prefix of valid messages, byte flips, random bytes, pointer soup; "
                "distinct = distinct input line; non-trivial = implementation output is a non-empty value. Real-code calls run in worker "
                "processes so that a stack overflow or hang is observed per op.",
        "assumptions": ["offsets passed to DecodeDomainName/DecodeQuestion/DecodeResourceRecord are non-negative (DecodeMessage only passes offsets >= 12)",
                        "strings.Split/strings.Join/append/copy and encoding/binary behave as modelled",
                        "the model describes the tree with fixes/C09-authority-additional, C09-encode-name-strict and C09-pointer-to-root applied",
                        "the allocation bound counts bytes of string data (label copies, Join results, concatenations), not slice headers"],
        "trusted": ["github.com/miekg/dns v1.0.14 is used only as a third codec in L2 (oracle for the Lean spec serializer/reader); no theorem depends on it"],
        "technique": "Lean 4 proof: functional induction over the well-founded decoder and the RFC 1035 reader, list induction over sections; "
                     "hand model tied to the Go code by differential correspondence; RFC 1035 spec (serializer with all admissible pointer "
                     "placements + reader) cross-checked against miekg/dns and an independent Go serializer on every run",
        "level_text": "Proved in Lean for all inputs about a hand-written model of EncodeDomainName/DecodeDomainName/Message.Encode/DecodeMessage: "
                      "the encoder emits exactly the uncompressed RFC 1035 message (encode_eq_spec, encodeName_spec) and nothing else (encodeName_sound); "
                      "decoding agrees with an independent RFC 1035 reader on every byte string the reader accepts (decode_agrees_with_spec), hence "
                      "round trip in all four sections (roundtrip, roundtrip_any_counts), the reader parses the library's output (spec_parses_model), and the "
                      "library decodes every admissible serialization with compression pointers at any label boundary incl. chains and pointers to the "
                      "root (model_parses_spec, using parse_serialize: the grammar is unambiguous); pointers not strictly backwards are refused "
                      "(pointer_must_go_back, pointer_must_go_back_name), termination is the well-founded definition of the decoder, no input panics "
                      "(decode_never_panics), and the allocation of a name is bounded explicitly (name_alloc_bound). The model is tied to the code by running "
                      "both on the same generated inputs on every run, and the implementation is compared with the Lean RFC 1035 codec and miekg/dns.",
        "level_note": "Trusted: Lean kernel; axioms propext, Classical.choice, Quot.sound; the hand model is tied to the Go code only by differential "
                      "testing (bounded); Go stdlib semantics as modelled. The theorems are about the repaired code (three fix patches in fixes/C09-*).",
    },
    "C10": {
        "gen": [],
        "rule": "cases = (1) FirstLevelEncode/Decode: every byte value at every one of the 16 positions (4096 names, exhaustive per position), "
                "every length 0..20 with and without scope, random names over arbitrary bytes (wildcard '*'+15 NUL, trailing spaces, suffix 0x20), "
                "valid scopes (LDH labels up to 63, totals up to the 255-octet wire limit) and invalid ones; decoding of mutated / truncated / "
                "over-long encodings and characters just outside 'A'..'P'; (2) Marshal->Unmarshal round trips of structured packets (header words "
                "biased to boundaries, 0..N entries in each of the four sections incl. a 3^4 section-size grid, RDATA 0..65535, some packets with "
                "wrong counts / RDLength / unrepresentable names); (3) Unmarshal on packets written by an independent RFC 1002 serializer and by "
                "miekg/dns, on every prefix, byte flips, label-string pointers, changed label lengths, raised counts, trailing bytes, random bytes "
                "and the pre-repair wire form; distinct = distinct input line; non-trivial = implementation output is a non-empty value.",
        "assumptions": ["*NetBIOSName fields of questions and records are non-nil; Unmarshal is called on a zero-valued packet",
                        "Marshal trusts the header counts and RDLength: the round-trip theorems assume counts = section sizes and RDLength = len(RData)",
                        "strings.Split/SplitN/Join, bytes.TrimRight, append/copy and encoding/binary behave as modelled",
                        "the model describes the tree with fixes/C10-rfc1002-name-wire-form and C10-wildcard-name applied",
                        "a valid scope identifier is what isValidDomainName accepts (letters, digits, hyphen; labels 1..63, no hyphen at either end)"],
        "trusted": ["github.com/miekg/dns v1.0.14 is used only as a third codec in L2; no theorem depends on it"],
        "technique": "Lean 4 proof: kernel evaluation over all 256 byte values for the nibble map, list induction over positions, labels and "
                     "sections; hand model tied to the Go code by differential correspondence; RFC 1001 §14.1 / RFC 1002 §4.1-4.2 spec (on top of the "
                     "RFC 1035 grammar of Spec/DNS.lean) cross-checked against an independent Go encoder and miekg/dns on every run",
        "level_text": "Proved in Lean for all inputs about a hand-written model of FirstLevelEncode/FirstLevelDecode/Marshal/Unmarshal: the nibble "
                      "arithmetic is the RFC 1001 half-ASCII map for all 256 byte values (l1_byte_spec, l1_chars_in_range) and FirstLevelEncode is the "
                      "32-character form of the space-padded name plus '.scope' (l1_encode_spec, l1_refuses_long); decoding the encoding returns the "
                      "name modulo trailing-space padding and the scope (l1_roundtrip, l1_roundtrip_exact, l1_padding_insensitive); Marshal emits exactly "
                      "the RFC 1002 message (marshal_eq_spec, name_wire_spec), which the independent RFC 1035/1002 reader parses to the same content "
                      "(rfc1002_parses_model) and Unmarshal reads back in all four sections (packet_roundtrip); no input panics (unmarshal_never_panics, "
                      "l1_decode_never_panics). The model is tied to the code by running both on the same generated inputs on every run.",
        "level_note": "Trusted: Lean kernel; axioms propext, Classical.choice, Quot.sound; the hand model is tied to the Go code only by differential "
                      "testing (bounded); Go stdlib semantics as modelled. The theorems are about the repaired code (two fix patches in fixes/C10-*).",
    },
}

NOT_APPLICABLE = {}
