# Per-property configuration of ./check: generated facts, assumptions, what counts as a case.
PROPS = {
    "C16": {
        "gen": [],
        "rule": "cases = binary SIDs (every count 0..15 x boundary authorities exhaustively, then random counts/values, "
                "truncations, oversized counts, wrong revisions, trailing bytes, random bytes) and distinguished names "
                "(random RDN sequences in AD text form with escaped specials incl. '\\,DC=' inside values, plus raw text); "
                "distinct = distinct input line; non-trivial = implementation output is a non-empty value",
        "assumptions": ["fmt %d and strings.Join/Split/HasPrefix/TrimPrefix/TrimSuffix behave as modelled",
                        "Lean's Nat.repr is taken as the definition of decimal notation"],
        "trusted": [],
        "technique": "Lean 4 proof (induction over the sub-authority list / RDN list) about a hand model; model tied to the Go code by differential correspondence; spec oracle on the same inputs",
        "level_text": "Theorems sid_string_spec (all authorities < 2^48, all sub-authority lists up to 255, all trailing bytes), sid_total "
                      "(no input panics), sid_short_or_wrong_revision_is_empty and dn_domain_spec (all RDN sequences in AD text form) are "
                      "proved in Lean for all inputs about a hand-written model of ParseSIDFromBytes and GetDomainFromDistinguishedName; "
                      "the model is tied to the code by running both on the same generated inputs on every run, and the "
                      "implementation is compared with an independent MS-DTYP reading of the same bytes.",
        "level_note": "Trusted: Lean kernel; axioms propext, Classical.choice, Quot.sound; the hand model is tied to the Go code only by "
                      "differential testing (bounded); fmt/strings stdlib semantics as modelled; Nat.repr as decimal notation.",
    },
    "C20": {
        "gen": [],
        "rule": "cases = IPv4: every prefix length 0..32 (plus 33/64/255) x addresses at the subnet boundaries (network, last, one below, "
                "one above, last-network-bit and first-host-bit flipped, 0, 255.255.255.255) x three choices of subnet argument, CIDRMask grid, "
                "print/parse over boundary octets, malformed CIDR strings (specials + mutations), range triples at boundaries; IPv6: print/parse "
                "over boundary groups, malformed strings, subnet/range triples that are neighbours in the 128-bit order incl. the "
                "high-half/low-half lexicographic trap; ports: 21x21 boundary grid 0..65535, padded with pattern white space, numbers around "
                "65535, mutations, specials; LM:NT: the four forms x each of the 25 Unicode white-space runes on either side, near-white-space "
                "bytes, wrong lengths, mutations, raw bytes, each also as a letter-case metamorphic case; "
                "distinct = distinct input line; non-trivial = implementation output is a value (not err / nil)",
        "assumptions": ["strconv.ParseUint (explicit base), fmt %d/%x, strings.Split/Contains/TrimSpace and the two regexp patterns behave as "
                        "modelled on bytes (checked differentially on every run, not proved)",
                        "the repository tree has fixes/C20-*.diff applied (ipv4 parse, IsInSubnet, LM:NT trim, port white space)"],
        "trusted": ["net/netip and Go regexp/strconv as independent oracles for the Lean spec ops"],
        "technique": "Lean 4 proof (induction over digit lists / byte strings; bit-level lemmas by testBit extensionality; omega) about a hand "
                     "model of the patched code; model tied to the Go code by differential correspondence; arithmetic spec oracle on the same "
                     "inputs, itself cross-checked against net/netip",
        "level_text": "Proved in Lean for all inputs about a hand-written model of network/ip and ParseLMNTHashes (patched tree): "
                      "ipv4_print_parse (all addresses x prefixes 0..32), ipv6_print_parse, port_print_parse and port_parse_padded (all port pairs, all "
                      "pattern white space), mask_spec / subnet_spec (all addresses, all p <= 32: bit operations = division by 2^(32-p)), range_spec, "
                      "ipv6_range_spec (lexicographic pair = 128-bit order), ipv6_subnet_spec (/128), the parsers never panic (ipv4/ipv6/port/lmnt _total), "
                      "lmnt_spec (full characterisation on every byte string), lmnt_trim_invariant (all Unicode white-space paddings, all strings), "
                      "lmnt_case_invariant, lmnt_never_drops_valid, lmnt_nt_only. The model is tied to the code by running both on the same generated "
                      "inputs on every run; the implementation is also compared with an arithmetic oracle.",
        "level_note": "Trusted: Lean kernel; axioms propext, Classical.choice, Quot.sound; the hand model (incl. its byte-level models of "
                      "strings.TrimSpace, strconv.ParseUint, fmt %d/%x and the two regular expressions) is tied to the Go code only by differential "
                      "testing (bounded). The theorems hold for the tree with fixes/C20-*.diff applied; on the unpatched tree the harness reports "
                      "violations (NewIPv4FromString panics/nil, IsInSubnet ignores the prefix, padded LM:NT strings give empty hashes). IPv6 has no prefix "
                      "length in the library, so its subnet test can only be /128 equality.",
    },
    "C15": {
        "gen": [],
        "rule": "cases = boundary grid: 13 instants (1582-10-15, 1601-01-01, 1970-01-01, the int64-nanosecond limits 1677-09-21 / 2262-04-11, "
                "30828-09-14 = tick 0x7FFF..., 2400, 5236 = 2^60 UUID ticks, 60056 = 2^64 ticks, ...) x offsets -2..2 s x 14 sub-second values "
                "(0, 1, 99, 100, 101, ..., 999999999) through all nine time-taking ops; 27 tick counts (0, 1, epochs, 1677/2262 limits via both "
                "epochs, the uint64 wrap point of ticks*100, 2^60, 2^62, 2^63, 0x7FFF..., 0x8000..., 0xFFFF...) x offsets -2..2 through every "
                "tick-taking op incl. their decimal strings of both signs; second counts around 922337203685 (= max int64 / 1e7) and the type "
                "extremes; malformed decimal strings; then seeded random values biased to the windows 1601..30828, 1677..2262, 1582..5236, "
                "present day and outside every range; distinct = distinct input line; non-trivial = implementation output is a value",
        "assumptions": ["time.Unix / Time.Unix / Time.Nanosecond, strconv.ParseInt and fmt %d behave as modelled (checked differentially on every "
                        "run, not proved); harness times have |seconds| < 2^62 so that time.Time itself does not overflow",
                        "the repository tree has fixes/C15-*.diff applied (FILETIME, LDAP, keycredential, UUID conversions split into seconds and remainder)"],
        "trusted": ["math/big as the independent oracle for the Lean spec ops"],
        "technique": "Lean 4 proof over Int64/UInt64 machine arithmetic (wrap-around, truncating division) against unbounded-integer specifications "
                     "(omega after reducing bmod/tdiv/tmod; ring-homomorphism argument for wrap-around that cancels; bit extensionality for the "
                     "FILETIME halves); model tied to the Go code by differential correspondence; math/big oracle on the same inputs",
        "level_text": "Proved in Lean about a hand-written model (Go int64/uint64 arithmetic incl. time.Unix normalisation) of the patched tree: "
                      "filetime_getTime_exact, filetime_unix_exact, filetime_inverse_ticks, uuid_getTime_exact (all 2^64 tick values incl. both 'never' "
                      "sentinels), kc_newDateTime_partial (all non-zero uint64 ticks), ldap_timestamp_exact and ldap_duration_exact (all 2^64 values "
                      "through their decimal strings, int64_print_parse), filetime_fromTime_exact / ldap_timestamp_of_time_exact / kc_toBinary_exact / "
                      "uuid_setTime_exact (every Go time whose tick count is representable, which contains 1601..30828, with sharpness witnesses), "
                      "the inverse pairs (filetime_inverse_time, ldap_timestamp_inverse, ldap_duration_inverse_partial, kc_inverse_partial, "
                      "uuid_inverse_time, spec_ticks_time_ticks, spec_time_ticks_time), FILETIME halves (filetime_toInt64_value, filetime_halves_inverse). "
                      "Two findings are recorded with Lean predicates and counterexample theorems: ConvertSecondsToLDAPDuration overflows for "
                      "|s| > 922337203685 (no 64-bit result exists, no error result), NewDateTime(0) returns the current time.",
        "level_note": "Trusted: Lean kernel; axioms propext, Classical.choice, Quot.sound; the hand model is tied to the Go code only by differential "
                      "testing (bounded); Go's time package is observed only through Unix()/Nanosecond(). The theorems hold for the tree with "
                      "fixes/C15-*.diff applied; the unpatched tree is wrong outside 1677..2262 for every conversion that went through nanoseconds "
                      "and for pre-1970 times with sub-100ns parts (rounding towards zero). ConvertLDAPTimeStampToUnixTimeStamp keeps its clamp of "
                      "pre-1970 ticks to 0 (part of the specification used); ConvertSecondsToLDAPDuration keeps the sign (its tests pin that).",
    },
}

NOT_APPLICABLE = {}
