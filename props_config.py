# Per-property configuration of ./check: generated facts, assumptions, what counts as a case.
PROPS = {
    "C03": {
        "gen": ["SmbDispatch"],
        "rule": "cases = headers (boundary grid per field x 3 SecurityFeatures variants, random, Flags above 0xFF) marshalled and "
                "round-tripped; header decoding of random / every truncated length; GetPID/SetPID grid + random; Parameters scripts "
                "(AddWordsFromBytesStream with even/odd streams up to 257 words, AddWord) and decoding (valid, truncated, trailing, random); "
                "Data scripts up to 65537 bytes and decoding incl. 0..3-byte buffers; all 256 command codes x reply flag through both "
                "factories and through Message.Unmarshal; Message.Marshal called k = 1..4 times on one message for 7 concrete commands "
                "(Close, Echo, LogoffAndx, NtTransact, Transaction req/resp) and for the command template with arbitrary raw contents "
                "around the 255-word / 65535-byte limits; Message.Unmarshal on well-formed, every-prefix-truncated, trailing, corrupt-count "
                "and random messages; distinct = distinct input line; non-trivial = implementation output is a non-empty value",
        "assumptions": ["encoding/binary Put/Uint16/32, append, copy and slice expressions behave as modelled (slices passed to decoders have capacity = length)",
                        "a command enters the envelope only through the Marshal/Unmarshal template shared by all 115 concrete commands "
                        "(nil-block creation, AndX words, AddWordsFromBytesStream(rawParametersContent), Data.Add(rawDataContent)); how a command "
                        "computes its two raw contents from its fields, and reads them back, is property C04/C05/C07's subject and enters the model as data",
                        "Header.SecurityFeatures is non-nil (NewHeader always sets it)",
                        "MS-CIFS command names and AndX set in Spec.commandNames / Spec.andxCodes are transcribed by hand from MS-CIFS 2.2.2.1 / 2.2.4"],
        "trusted": ["tools/extract/smb_dispatch.go reads the two factory switches, the New* constructors and codes.go (go/ast); its output is tied to the "
                    "real factories on all 512 (code, reply) pairs in every run"],
        "technique": "Lean 4 proof (bit-level lemmas for the 32-byte layout, induction over parameter words / repeated Marshal calls, kernel evaluation of the "
                     "512 dispatch rows on tables regenerated from the source) about a hand model; model tied to the Go code by differential correspondence; "
                     "independent MS-CIFS reading of the same inputs as oracle",
        "level_text": "Theorems header_roundtrip, header_layout_eq_spec / header_slot_eq_spec (MS-CIFS 2.2.3.1 offset table), header_unmarshal_exact, pid_get_set, "
                      "dispatch_total (all 256 codes x reply flag, on tables regenerated from 0.command_casting.go, the constructors and codes.go), marshal_eq_spec and "
                      "frame_length (all block contents up to 255 words / 65535 bytes; guard branch and truncation witnesses separately), marshal_repeatable (every "
                      "number of repeated Marshal calls), message_roundtrip and message_unmarshal_envelope_total are proved in Lean for all inputs about a hand-written "
                      "model of the patched envelope code; the model is tied to the code by running both on the same generated inputs on every run, and the "
                      "implementation is compared with an independent reading of MS-CIFS on the same inputs.",
        "level_note": "Trusted: Lean kernel; axioms propext, Classical.choice, Quot.sound; the hand model is tied to the Go code only by differential testing (bounded); "
                      "commands are abstracted to the pair of raw contents they contribute (template shared by all concrete commands, checked on 7 of them and on a "
                      "harness-defined command following the template); the extractor of the dispatch tables; encoding/binary and slice semantics as modelled. "
                      "Header.Flags is declared uint16 but one byte is emitted: the round trip is stated for Flags <= 0xFF with the truncation witness.",
    },
    "C16": {
        "gen": [],
        "rule": "cases = binary SIDs (every count 0..15 x boundary authorities exhaustively, then random counts/values, "
                "truncations, oversized counts, wrong revisions, trailing bytes, random bytes) and distinguished names "
                "(random RDN sequences in AD text form with escaped specials incl. '\\,DC=' inside values, plus raw text); "
                "distinct = distinct input line; non-trivial = implementation output is a non-empty value",
        "assumptions": ["fmt %d and strings.Join/Split/HasPrefix/TrimPrefix/TrimSuffix behave as modelled",
                        "Lean's Nat.repr is taken as the definition of decimal notation"],
        "trusted": [],
        "technique": "Lean 4 proof (induction over the sub-authority list / RDN list) about a hand model; model tied to the Go code by differential correspondence; spec oracle on the same inputs",
        "level_text": "Theorems sid_string_spec (all authorities < 2^48, all sub-authority lists up to 255, all trailing bytes), sid_total "
                      "(no input panics), sid_short_or_wrong_revision_is_empty and dn_domain_spec (all RDN sequences in AD text form) are "
                      "proved in Lean for all inputs about a hand-written model of ParseSIDFromBytes and GetDomainFromDistinguishedName; "
                      "the model is tied to the code by running both on the same generated inputs on every run, and the "
                      "implementation is compared with an independent MS-DTYP reading of the same bytes.",
        "level_note": "Trusted: Lean kernel; axioms propext, Classical.choice, Quot.sound; the hand model is tied to the Go code only by "
                      "differential testing (bounded); fmt/strings stdlib semantics as modelled; Nat.repr as decimal notation.",
    },
    "C06": {
        "gen": [],
        "rule": "cases = per wire type (SMB_STRING x5 formats, OEM_STRING, SMB_DATE, FILETIME, RANGE32/64, SMB_NMPIPE_STATUS, SMB_RESUME_KEY, "
                "SMB_DIRECTORY_INFORMATION, SMB_FILE_ATTRIBUTES, AndX, Parameters, Data, Version): enc = Marshal of a value (bytes + receiver after the call); "
                "rt = Unmarshal(Marshal(v) || suffix) into a fresh receiver (fields, n, len); dec = Unmarshal of raw bytes (every prefix of valid encodings, "
                "corruptions, every format byte, random bytes). Values: string lengths 0..300 (thorough 0..1100) and 4096/65533/65535/65536 in every format, "
                "packed dates and pipe-status words on a grid (thorough: all 65536 each), every WordCount 0..255, data lengths around 255/256/65535, "
                "out-of-domain values (embedded NUL, counts out of step, long names); buffers have cap == len; "
                "distinct = distinct input line; non-trivial = implementation output is a non-empty value",
        "assumptions": ["encoding/binary Put/Uint16/32, append, copy and slice-bounds checks behave as modelled",
                        "Unmarshal is run on a fresh receiver (every decoder overwrites all fields on success)",
                        "integer endianness is taken from the code (SMB_FILE_ATTRIBUTES, AndXOffset, parameter words big-endian): conformance is C05"],
        "trusted": [],
        "technique": "Lean 4 proof (list induction, bit-extensionality for the packed words) about hand models of the 14 Marshal/Unmarshal pairs; "
                     "models tied to the Go code by differential correspondence; round-trip oracle on the same inputs",
        "level_text": "For each of the 14 wire types the theorem <Type>.rt is proved in Lean for all values of an explicit decidable domain and all "
                      "trailing suffixes: Marshal succeeds, emits wireSize bytes, and Unmarshal(bytes ++ suffix) returns the same field values and exactly "
                      "wireSize (SMB_RESUME_KEY / SMB_DIRECTORY_INFORMATION also from any receiver state, modulo the space padding Marshal applies: rt_norm). "
                      "smb_date_all_words and pipe_status_all_words cover all 65536 words by bit-extensionality. SMB_NMPIPE_STATUS is proved only for the empty "
                      "suffix (rt_partial) with the negation at a witness (finding nmpipe_trailing: the suite pins the len != 2 test). The models are of the code with "
                      "fixes/C06-*.diff applied and are tied to it by running both on the same generated inputs on every run.",
        "level_note": "Trusted: Lean kernel; axioms propext, Classical.choice, Quot.sound; the hand models are tied to the Go code only by differential "
                      "testing (bounded); encoding/binary and slice semantics as modelled. Wire endianness is not judged here (C05).",
    },
    "C11": {
        "gen": [],
        "rule": "cases = real loopback TCP pairs (net.Listen 127.0.0.1:0). send: the real Send writes to a peer that reads to EOF (payload lengths "
                "0,1,..,0xFFFF,0x10000,0x1FFFF,0x20000,0x2FFFF,0x30000 and random); recv: a scripted peer writes RFC 1002 frames in a random segmentation "
                "(1-byte writes, pauses, MSS-sized and 64 KiB chunks) and closes after EVERY byte offset of short frame sequences and after chosen offsets of "
                "0xFFFF/0x10000/0x1FFFF-byte frames, the real Receive is called until it fails; malformed streams (other message types, reserved flag bits, "
                "short bodies, garbage); e2e: transport A Sends payload lists, a relay re-segments at random, transport B Receives; "
                "distinct = distinct input line; non-trivial = implementation output is a non-empty value",
        "assumptions": ["io.ReadFull returns exactly len(buf) bytes or an error (its documented contract)",
                        "conn.Write(p) hands all of p to the stream or returns an error",
                        "loopback TCP delivers the written bytes in order and reports the peer's close as EOF"],
        "trusted": ["io.ReadFull / net.Conn semantics (contract only)"],
        "technique": "Lean 4 proof (induction over the frame list, arithmetic of the 17-bit length) about a hand model of Send/Receive over a byte stream; "
                     "model tied to the Go code by differential correspondence through real loopback sockets; RFC 1002 oracle on the same inputs",
        "level_text": "Proved in Lean for all inputs about a hand model of NBTTransport.Send/Receive (with fixes/C11-17bit-length.diff): frame_roundtrip (every list "
                      "of payloads of 0..0x1FFFF bytes is received as exactly that list), send_receive, oversize_refused (> 0x1FFFF is an error, nothing written), "
                      "cut_is_error and cut_yields_prefix (a stream ending at any offset yields only whole sent messages, then an error), receive_total, "
                      "frame_is_rfc1002, and readFullSeg_contract / segmentation_independent (the ReadFull loop over arbitrary TCP read sizes meets its contract). "
                      "The model is tied to the code on every run through real loopback connections with scripted segmentations and cuts after every byte offset.",
        "level_note": "PARTIAL for real TCP behaviour: only the byte-stream abstraction is modelled (in-order delivery, close = end of stream); resets, "
                      "timeouts, partial writes and concurrent use of one transport are not. Trusted: Lean kernel; axioms propext, Classical.choice, Quot.sound; "
                      "io.ReadFull / net.Conn contracts; the hand model is tied to the Go code only by differential testing (bounded).",
    },
    "C12": {
        "gen": [],
        "rule": "cases = RC4 histories (every key length 1..256 x random chunkings incl. empty chunks, data lengths around 0/1/15..17/31..33/255..257/700 "
                "and the RFC 6229 keys with 4128-byte streams; in-place, disjoint, partially overlapping and too-short destinations; invalid key sizes; "
                "Reset inside a history = tie only), CMAC histories (AES-128/192/256, DES, 3DES and two toy block functions given as tables of true "
                "(input,output) pairs traced from the real code and from a reference; RFC 4493 and SP 800-38B TDES vectors; message lengths k*n-1,k*n,k*n+1 "
                "x chunkings; every two-way split of every length 0..2n+1; random Write/Sum(prefix)/Reset interleavings; unsupported block sizes), PKCS#7 "
                "(every block size 0..255 x lengths around multiples, pad and unpad(pad); every buffer of length <= 6 over {0,1,2,3} and <= 5 over "
                "{0,2,5,255}; valid paddings 1..255 with one byte damaged / truncated; random long buffers), GPP (Unicode passwords incl. astral and "
                "boundary code points: encrypt, decrypt(encrypt), decrypt of padded / unpadded / partially padded base64; arbitrary plaintexts incl. odd "
                "lengths and lone surrogates; damaged / partial ciphertexts; base64 with newlines, garbage, over-padding; invalid UTF-8 passwords), and "
                "the Lean models of base64 / UTF-8 / UTF-16 against Go's standard library; "
                "distinct = distinct input line; non-trivial = implementation output is a non-empty value",
        "assumptions": ["AES/DES are not modelled: block functions are parameters of every theorem; at run time they are tables of true (input, output) pairs "
                        "computed by Go's crypto/aes, crypto/des (a missing pair makes the Lean side answer `miss`, which counts as a disagreement)",
                        "GPP: `D (E x) = x` and `|E x| = 16` on 16-byte blocks are hypotheses of gpp_decrypt_encrypt (true of AES-256)",
                        "Go semantics of encoding/base64.StdEncoding, []rune(string), string([]rune), unicode/utf16, crypto/cipher CBC, crypto/subtle "
                        "as modelled in Manticore.C12.Prim / PKCS7 (the Prim models are compared with the Go standard library on every run)",
                        "a Go string given to GPPPEncrypt is identified with its bytes; 'Unicode password' = UTF-8 of a list of scalar values",
                        "RC4 buffer aliasing is modelled by the relative offset of dst and src inside one allocation (or 'different allocations')"],
        "trusted": ["Go crypto/aes, crypto/des, crypto/cipher, encoding/base64, unicode/utf16, crypto/subtle (stdlib)",
                    "Go crypto/rc4 and the harness's reference CMAC (RFC 4493 / SP 800-38B vectors checked at start-up) only as cross-checks of the Lean specs"],
        "technique": "Lean 4 proof (simulation of the uint8 RC4 by the textbook algorithm on naturals; representation invariant + induction over byte/op "
                     "lists for CMAC with an arbitrary block function; big-endian arithmetic for the subkeys; characterisation of the constant-time unpad "
                     "loop; round-trip lemmas for base64/UTF-8/UTF-16/CBC) about hand models; models tied to the Go code by differential correspondence; "
                     "spec oracles on the same inputs",
        "level_text": "25 theorems proved in Lean for all inputs about hand-written models of crypto/rc4, crypto/cmac, crypto/pkcs7 and crypto/gppp: "
                      "RC4 = textbook RC4 for every key of 1..256 bytes, every message and every history of contract-respecting XORKeyStream calls "
                      "(rc4_eq_spec, rc4_xor_chunking, rc4_history_eq_spec, rc4_guard, rc4_key_size, rc4_involution); CMAC = SP 800-38B for an arbitrary "
                      "8- or 16-byte block function, every message, every chunking and every Write/Sum/Reset history, incl. the subkey derivation "
                      "(cmac_subkeys_spec, cmac_stream_eq_spec, cmac_history_eq_spec, cmac_sum_idempotent, cmac_sum_does_not_disturb_writes, cmac_reset_is_new, "
                      "cmac_new_ok_iff); unpad(pad(m,b)) = m for all m and b in 1..255, Unpad accepts exactly the validly padded buffers and never panics "
                      "(pkcs7_*); GPP encryption is base64(AES-256-CBC_zeroIV(pkcs7(utf16le(p)))) for an abstract block cipher, decrypt(encrypt(p)) = p for "
                      "every Unicode password given D(E(x)) = x, unpadded base64 is accepted, decryption is total and agrees with the specification on every "
                      "ciphertext (gpp_*). The models are tied to the code by running both on the same generated inputs on every run, and the implementation "
                      "is compared with independent readings of the standards (Lean specs, themselves cross-checked against Go's crypto/rc4 and a reference CMAC).",
        "level_note": "Trusted: Lean kernel; axioms propext, Classical.choice, Quot.sound; the hand models are tied to the Go code only by differential "
                      "testing (bounded); AES/DES/CBC/base64/UTF-16 of the Go standard library; that the block function is AES-256 under the published key "
                      "is checked at run time only (tables computed by crypto/aes under Manticore.C12.GPP.Spec.msKey). The GPP theorems hold for the tree with "
                      "fixes/C12-gppp-odd-length.diff applied (before it, GPPPDecryptBytes panicked on odd-length plaintexts).",
    },
}

NOT_APPLICABLE = {}
