# Per-property configuration of ./check: one file props/Cxx.py per claimed property
# (keys: gen, rule, assumptions, trusted, technique, level_text, level_note).
import importlib.util, os, glob
PROPS = {}
for _p in sorted(glob.glob(os.path.join(os.path.dirname(os.path.abspath(__file__)), "props", "C*.py"))):
    _s = importlib.util.spec_from_file_location("props_" + os.path.basename(_p)[:-3], _p)
    _m = importlib.util.module_from_spec(_s); _s.loader.exec_module(_m)
    PROPS[os.path.basename(_p)[:-3]] = _m.CONFIG

NOT_APPLICABLE = {}
