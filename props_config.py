# Per-property configuration of ./check: generated facts, assumptions, what counts as a case.
PROPS = {
    "C16": {
        "gen": [],
        "rule": "cases = binary SIDs (every count 0..15 x boundary authorities exhaustively, then random counts/values, "
                "truncations, oversized counts, wrong revisions, trailing bytes, random bytes) and distinguished names "
                "(random RDN sequences in AD text form with escaped specials incl. '\\,DC=' inside values, plus raw text); "
                "distinct = distinct input line; non-trivial = implementation output is a non-empty value",
        "assumptions": ["fmt %d and strings.Join/Split/HasPrefix/TrimPrefix/TrimSuffix behave as modelled",
                        "Lean's Nat.repr is taken as the definition of decimal notation"],
        "trusted": [],
        "technique": "Lean 4 proof (induction over the sub-authority list / RDN list) about a hand model; model tied to the Go code by differential correspondence; spec oracle on the same inputs",
        "level_text": "Theorems sid_string_spec (all authorities < 2^48, all sub-authority lists up to 255, all trailing bytes), sid_total "
                      "(no input panics), sid_short_or_wrong_revision_is_empty and dn_domain_spec (all RDN sequences in AD text form) are "
                      "proved in Lean for all inputs about a hand-written model of ParseSIDFromBytes and GetDomainFromDistinguishedName; "
                      "the model is tied to the code by running both on the same generated inputs on every run, and the "
                      "implementation is compared with an independent MS-DTYP reading of the same bytes.",
        "level_note": "Trusted: Lean kernel; axioms propext, Classical.choice, Quot.sound; the hand model is tied to the Go code only by "
                      "differential testing (bounded); fmt/strings stdlib semantics as modelled; Nat.repr as decimal notation.",
    },
    "C08": {
        "gen": [],
        "rule": "cases = NEGOTIATE (16 fixed names x 3 workstations x both character sets, random names incl. non-ASCII / astral / "
                "invalid UTF-8, lengths 65534..65536 of the encoded field), AUTHENTICATE (flag grid UNICODE/OEM x ESS x VERSION x "
                "target-info lists, random flags, 64 KiB fields), CHALLENGE (generator-built well-formed messages with random flags, "
                "AV-pair lists, filler gaps, checked against Spec.buildChallenge; every truncation; descriptor len/offset grid incl. "
                "offsets that wrap 2^32; corrupted headers; random bytes), target-info lists (duplicates, empty values, EOL inside, "
                "truncations, trailing bytes), SPNEGO (token lengths 0..140, 200..270, 65480..65545, 65536.., nil and empty tokens; "
                "NegTokenResp with states/mechanisms incl. rejected OIDs; every two-byte header 60 xx; truncations; single-byte header "
                "corruptions of valid tokens), ProcessChallengeToken end to end; distinct = distinct input line; non-trivial = "
                "implementation output is a non-empty value",
        "assumptions": ["strings.ToUpper and utf16.EncodeUTF16LE are arbitrary functions in the theorems; at run time the harness "
                        "passes the Go results as finite tables",
                        "encoding/asn1 Marshal/Unmarshal behave on the six Go types used as modelled (tied on every run, including "
                        "malformed input); asn1 rejects lengths >= 2^31, so the round trip is stated below that",
                        "LM/NT response bytes inside AUTHENTICATE are inputs here (read back from the produced message at the offsets "
                        "MS-NLMP prescribes); their content is property C02",
                        "a nil and an empty Go slice are distinguished only for the SPNEGO token argument"],
        "trusted": ["encoding/asn1 (modelled for the shapes used, tied by L2)", "crypto/rand, time.Now (values read back from the output)"],
        "technique": "Lean 4 proofs (list algebra, little-endian arithmetic, induction over AV-pair lists and DER digits) about a hand "
                     "model; model tied to the Go code by differential correspondence; MS-NLMP validators / independent builders as "
                     "spec oracles on the same inputs",
        "level_text": "negotiate_descriptors and authenticate_descriptors (all strings, both character sets, all flag words, arbitrary "
                      "ToUpper/UTF-16 functions, fields < 64 KiB: signature, type, Len = MaxLen = |field|, msg[off:off+len] = field, "
                      "fields consecutive from 40 / 88 to the end), parse_build_challenge (every flag word, all contents < 64 KiB, "
                      "arbitrary filler), parse_build_targetinfo + avMap_sorted + avMap_lookup (all AV-pair lists, last duplicate "
                      "wins), der_len_roundtrip (all n < 2^32), wrap_init_eq_spec, spnego_roundtrip_partial (every non-empty token "
                      "< 2^31-64), challenge_parse_total, spnego_extract_total are proved in Lean for all inputs about a hand model of "
                      "the patched code; two findings are proved as counterexamples (64 KiB fields, empty token).",
        "level_note": "Trusted: Lean kernel; axioms propext, Classical.choice, Quot.sound; the hand model is tied to the Go code only by "
                      "differential testing (bounded); encoding/asn1 semantics as modelled; ToUpper/UTF-16 as parameters.",
    },
    "C02": {
        "gen": [],
        "rule": "cases = ParityBit 0..599 and large ints; ParityAdjust / createDesKey on every 7-bit group value in each of the 8 "
                "group positions over two backgrounds, random 7-byte keys, other key lengths; NTLMv1 through all entry points "
                "(password constructor: Hash/String/NTResponse/LMResponse; hash constructor; ntlm.desEncrypt and "
                "calculateNTLMv1Response via hooks) with passwords in several scripts and challenges covering every byte value, "
                "hashes and challenges of other lengths; NTLMv2 key/Hash/ToHashcatString over a domain x user case grid (upper, "
                "lower, mixed, non-ASCII with special case mappings), random credentials, 64 KiB domains; ntlm.go ntowfv2 / "
                "createNTLMv2Blob / calculateNTLMv2Proof / calculateNTLMv2Response via hooks with AV-list, empty and random "
                "target info; the LM/NT payloads inside CreateAuthenticateMessage for both NTLMv1 and NTLMv2 flag sets; "
                "distinct = distinct input line; non-trivial = implementation output is a non-empty value",
        "assumptions": ["MD4, HMAC-MD5, DES, hex, strings.ToUpper and the UTF-16 encoder are arbitrary functions in the theorems "
                        "(laws assumed: HMAC-MD5 returns 16 bytes, hex decodes back, DES ignores key parity bits); at run time the "
                        "residual expressions are evaluated with x/crypto/md4 and the Go standard library",
                        "nt.NTHash / lm.LMHash values (property C01) are inputs of the NTLMv1 model: the harness passes "
                        "x/crypto MD4 of the UTF-16 password and the library's LM hash",
                        "time.Now and crypto/rand values are read back from the produced blob (timestamp, client challenges)",
                        "UTF-16 of the domain is passed alongside where the code needs its length (AV pair of NTLMv2.Hash)",
                        "slices handed to the library have capacity = length"],
        "trusted": ["golang.org/x/crypto/md4, crypto/md5, crypto/hmac, crypto/des, encoding/hex, unicode/utf16, strings.ToUpper "
                    "(residual primitives, never re-implemented)"],
        "technique": "Lean 4 proofs (exhaustive decide per byte value, bit extensionality for the 7->8 regrouping, list algebra "
                     "over residual expressions for an arbitrary interpretation of the primitives) about a hand model; model tied "
                     "to the Go code by differential correspondence; the spec side is an independent MS-NLMP verifier evaluated "
                     "with stdlib crypto on the library's own output",
        "level_text": "parity_bit_spec, parity_adjust_spec (all 7-byte keys: key bits preserved in order, odd parity), "
                      "createDesKey_eq_parityAdjust, v1_paths_agree, v1_eq_DESL (all 16-byte hashes, all challenges, any DES), "
                      "v2_accepted / v2_accepted_ntlm (all credentials in any case and script, all challenges, any HMAC), "
                      "v2_blob_wellformed / v2_blob_wellformed_ntlm / v2_response_blob, hashcat_reparse_verifies are proved in "
                      "Lean for all inputs about a hand model of the patched code (five fix patches repair what the original "
                      "tree violated).",
        "level_note": "Trusted: Lean kernel; axioms propext, Classical.choice, Quot.sound; the hand model is tied to the Go code only by "
                      "differential testing (bounded); the cryptographic primitives are opaque parameters (their stdlib "
                      "implementations are used, not verified).",
    },
}

NOT_APPLICABLE = {}
