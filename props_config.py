# Per-property configuration of ./check: generated facts, assumptions, what counts as a case.
PROPS = {
    "C16": {
        "gen": [],
        "rule": "cases = binary SIDs (every count 0..15 x boundary authorities exhaustively, then random counts/values, "
                "truncations, oversized counts, wrong revisions, trailing bytes, random bytes) and distinguished names "
                "(random RDN sequences in AD text form with escaped specials incl. '\\,DC=' inside values, plus raw text); "
                "distinct = distinct input line; non-trivial = implementation output is a non-empty value",
        "assumptions": ["fmt %d and strings.Join/Split/HasPrefix/TrimPrefix/TrimSuffix behave as modelled",
                        "Lean's Nat.repr is taken as the definition of decimal notation"],
        "trusted": [],
        "technique": "Lean 4 proof (induction over the sub-authority list / RDN list) about a hand model; model tied to the Go code by differential correspondence; spec oracle on the same inputs",
        "level_text": "Theorems sid_string_spec (all authorities < 2^48, all sub-authority lists up to 255, all trailing bytes), sid_total "
                      "(no input panics), sid_short_or_wrong_revision_is_empty and dn_domain_spec (all RDN sequences in AD text form) are "
                      "proved in Lean for all inputs about a hand-written model of ParseSIDFromBytes and GetDomainFromDistinguishedName; "
                      "the model is tied to the code by running both on the same generated inputs on every run, and the "
                      "implementation is compared with an independent MS-DTYP reading of the same bytes.",
        "level_note": "Trusted: Lean kernel; axioms propext, Classical.choice, Quot.sound; the hand model is tied to the Go code only by "
                      "differential testing (bounded); fmt/strings stdlib semantics as modelled; Nat.repr as decimal notation.",
    },
    "C17": {
        "gen": ["NbtnsLocks"],
        "rule": "cases = (a) sequential histories of RegisterName/QueryName/ReleaseName/RefreshName/MarkNameConflict/CleanExpiredNames on a fresh "
                "NetBIOSNameServer, one history per line: every history of depth 4 (quick; thorough: depth 5, and depth 6 with positive TTLs) over "
                "2 names x 2 types x 3 addresses x ttl sign, enumerated up to renaming of names/addresses; the ordering scenarios named by the property; "
                "random histories up to length 200 over up to 4 names x 5 addresses (each address passed alternately as 4-byte and 16-byte net.IP); "
                "each history is run twice on the real code: results in slice order vs the Lean heap model (tie) and results as sets + 'result unchanged "
                "at the end' flags vs the atomic-map spec (property); (b) concurrent executions: 2-4 goroutines, <= 12 calls in total, recorded with "
                "invocation/response stamps in a child process built with -race, every recorded history decided by the Lean op `linz`; "
                "distinct = distinct input line; non-trivial = implementation output is a non-empty value",
        "assumptions": ["each method of NetBIOSNameServer is one atomic step: justified by the extracted lock facts (first statement mu.Lock/RLock, deferred "
                        "matching unlock, no early unlock, writers hold the write lock) and the contract of sync.RWMutex; Go's scheduler itself is not modelled",
                        "time is abstracted to the sign of the ttl argument; the harness uses +-1h so the wall clock never decides",
                        "addresses are classes of net.IP.Equal; names are opaque strings; NameType values other than Unique/Group are outside the alphabet",
                        "Go slice semantics (append in place when cap allows, growth allocates, copy) as encoded in the heap model; capacity growth rule is unobservable",
                        "race detector: built on the fly with `go build -race` (needs cgo/gcc, available offline here); if that build fails the run says so in "
                        "evidence.extra.concurrent.race_build and the concurrent part runs without it"],
        "trusted": ["sync.RWMutex", "Go race detector (looks for races on the executed schedules, does not exclude them)"],
        "technique": "Lean 4 proof: induction over operation sequences on a hand model (value level + slice/heap level), refinement to an atomic-map specification, "
                     "extracted lock facts decided by the kernel, proved-correct Wing-Gong linearizability checker applied to recorded concurrent executions; "
                     "model tied to the Go code by differential correspondence",
        "level_text": "Theorems inv_init/inv_step/inv_reachable (ownership invariant for every history of any length), refines/refines_history (the table is the atomic map of the "
                      "specification, equal results), no_panic_reachable, holds_frame + register_ok_holds + release_ok_not_holds (owners = registered and not released), "
                      "unique_no_takeover, heap_refines/heap_refines_history (Go-slice model = value model), query_result_is_current, query_result_is_copy (later "
                      "updates never change a returned result; alias_would_leak shows the copy is what makes it true), lock_discipline/writers_take_write_lock/"
                      "query_copies (facts regenerated from nbtns.go, decided by the kernel), linz_iff (the checker used on concurrent executions is sound and complete) "
                      "are proved in Lean for all inputs about a hand-written model of nbtns.go; the model is tied to the code by running both on the same histories on every run.",
        "level_note": "PARTIAL for schedules: histories (all lengths) are proved; concurrent interleavings are not modelled below method granularity. Atomicity of a method "
                      "is an assumption resting on the extracted lock facts and sync.RWMutex; the harness observes 2-4 goroutines under the race detector and checks every "
                      "recorded history for linearizability with the proved checker, which bounds but does not prove the concurrent clause. Trusted: Lean kernel; axioms "
                      "propext, Classical.choice, Quot.sound; hand model tied by differential testing (bounded); extractor tools/extract/nbtns_locks.go.",
    },
    "C18": {
        "gen": ["NbnsDispatch", "ServerFacts"],
        "rule": "cases = (a) c18.dispatch: one request per case to a fresh NBNS server on a loopback socket (standalone Server / UDPServer / TCPServer), "
                "all 16 opcodes x each server x 20 (quick) / 120 (thorough) settings of the other 12 flag bits (none, R, group, broadcast, all, random) x three "
                "prepared tables x question/record present or absent; the observable outcome (response id, flags, QDCOUNT, answer records, QueryName of both "
                "names afterwards) is compared with the Lean model of handlePacket over the generated mask/case constants (tie) and with the RFC 1002 routing "
                "(property); (b) c18.sock: ten socket scenarios per run in a child process built with -race: isolation (4/32 concurrent clients x 50/2000 "
                "pipelined queries with distinct ids and names against each NBNS server kind and the LLMNR server: every response received must carry the id of "
                "an outstanding request of that client and the answer for that request), LLMNR client routing (shuffled responses, non-responses and unknown ids "
                "against registered query channels, and Client.Query itself), Stop/Close at 10/200 random moments under traffic for the five loops (returns within a "
                "60 s watchdog, second call does not panic, goroutine count returns to the baseline within 30 s); "
                "distinct = distinct input line; non-trivial = implementation output is a non-empty value",
        "assumptions": ["a handler goroutine's bytes are either a window of the loop buffer or its own copy: which one is the extracted fact ServerFacts (taint of the "
                        "`go` arguments from buffers made outside the loop; llmnr.DecodeMessage accepted as non-retaining by a syntactic check of every use of its parameter)",
                        "Close of a socket makes a blocked Read/Accept return an error (contract of package net) - the hypothesis `Consistent` of stop_terminates",
                        "NBNS packet encoding/decoding (Marshal/Unmarshal, C10) is outside this model: requests are given to the model as parsed fields",
                        "lost datagrams and slow responses are counted in the evidence and never reported; the only time bounds are 60 s watchdogs on Stop/Serve returning "
                        "and 30 s for goroutines to settle",
                        "race detector: built on the fly with `go build -race` (cgo/gcc available offline here); evidence.extra.sockets.race_build says whether it was used"],
        "trusted": ["package net, sync.Once, sync.WaitGroup, sync.Map, Go scheduler", "Go race detector (finds races on executed schedules; does not exclude them)"],
        "technique": "Lean 4 proof: bit-vector case analysis over all 16-bit flag words on constants regenerated from the source; induction over arbitrary schedules of an "
                     "interleaving model and of a shutdown transition system; extracted facts decided by the kernel; handler model tied to the servers by differential "
                     "correspondence over loopback sockets; concurrent behaviour observed under the race detector",
        "level_text": "Theorems opcode_dispatch (all 65 536 flag words x 3 servers: the code's switch selects the RFC 1002 handler of bits 11..14), query_guard_exact, handle_eq_spec, "
                      "response_carries_request_id, response_answers_the_request, response_header, handlers_short_circuit, route_matching_id / route_delivers / "
                      "route_leaves_others (LLMNR client), isolated_if_copied / isolated_ids / one_response_per_request (every schedule of the receive-loop model) with "
                      "shared_view_leaks (existence of a leaking schedule when the buffer is shared) and no_loop_shares_its_buffer (extracted), stop_terminates, "
                      "stop_twice_panics_without_once, stop_any_number_of_times_with_once, stops_close_once_and_unblock (extracted) are proved in Lean; the handler model is "
                      "tied to the real servers by running both on the same requests over loopback sockets on every run.",
        "level_note": "PARTIAL for the runtime clauses: goroutine scheduling, absence of data races, prompt exit and absence of leaked goroutines are OBSERVED by the harness "
                      "(loopback sockets, race detector, goroutine counts) and PROVED only of the interleaving / transition-system models; the link between those models and the "
                      "code is the extracted facts (go-statement arguments, sync.Once around close, select on the quit channel) plus that observation, not a translation. "
                      "Proof level for dispatch, response contents and client routing (hand model + Gen constants + differential tie). Trusted: Lean kernel; axioms propext, "
                      "Classical.choice, Quot.sound; extractors tools/extract/nbns_dispatch.go and server_facts.go; package net; the race detector.",
    },
}

NOT_APPLICABLE = {}
