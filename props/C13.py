# configuration of ./check for property C13 (see props_config.py)
CONFIG = {'gen': ['ConstsC13'],
 'rule': 'cases = (a) every single-bit pattern of the 128 bits and its complement, all-zero, all-one, then seeded random 16-byte values '
         '(dense/sparse), each sent through uuid.Unmarshal, UUIDv1/v2/v8.Unmarshal (as is and with the version nibble forced), '
         'GetClockSequence, guid.FromRawBytes, the canonical text in lower/upper/mixed case through the four FromString parsers, and the '
         'GUID with those raw bytes through ToBytes/ToFormatN/D/B/P/X and back through FromFormatN/D/B/P/X and FromString in '
         'lower/upper/mixed case with optional surrounding white space, plus each text offered to the four other format parsers; (b) every '
         'single-bit pattern of every field (also bits outside the widths) and random field assignments of UUID, UUIDv1, UUIDv2, UUIDv8, '
         'GUID through Marshal->Unmarshal / ToBytes->FromRawBytes; (c) binary inputs of length 0..24; (d) malformed text: corpus of '
         'historical witnesses, groups of other widths, moved/duplicated/deleted/inserted characters, inner white space, truncations, '
         'wrong bracket pairs; distinct = distinct input line; non-trivial = implementation returned a value Half of the decoding/parsing '
         'cases (chosen by the arguments) use a receiver that has already decoded or parsed another value with every field non-zero. String() is asked before Marshal() on objects that held another value first (text and binary form must agree); an object returned by an earlier parse of the same text is scribbled on before the text is parsed again.',
 'assumptions': ['text inputs are ASCII: strings.TrimSpace/ToLower are modelled on bytes < 0x80 (Unicode white space and case tables are '
                 'not modelled)',
                 'strconv.ParseUint(_,16,n), encoding/hex.DecodeString, strings.Split/Replace, fmt %0Nx and regexp.MatchString on the five '
                 'anchored patterns (sequences of [0-9a-f]{n} and literals) behave as modelled',
                 'the repairs fixes/C13-guid-formatx-fields.diff, C13-guid-strict-dbp.diff, C13-uuid-fromstring-hyphens.diff are applied '
                 'to the tree under test',
                 'timestamps: the 60-bit tick field only; conversion to time.Time (GetTime/SetTime) belongs to C15',
                 'FromRawBytes on fewer than 16 bytes yields the nil GUID (no error result; fixes/C07-guid-fromrawbytes-short.diff; '
                 "theorem fromRaw_total): decoder totality is C07's subject"],
 'trusted': ['github.com/google/uuid v1.6.0, encoding/binary and fmt as the independent oracle for the Lean specifications'],
 'technique': 'Lean 4 proof (bit extensionality for the nibble/field/endianness layouts, induction for hex printing/parsing and the '
              'pattern reader/writer, omega for the RFC 4122 bit-field arithmetic) about a hand model; model tied to the Go code by '
              'differential correspondence; RFC 4122 / MS-DTYP specification evaluated on the same inputs and itself cross-checked against '
              'google/uuid; constants regenerated from the source on every run by a go/ast fact extractor (Gen/ConstsC13: nibble masks, '
              'shifts and byte positions of UUID.Marshal/Unmarshal, field masks, shifts, positions, widths and byte orders of '
              'UUIDv1/UUIDv2 with their version numbers, byte positions and shifts of GUID.FromRawBytes/ToBytes, the 16-byte minimum '
              'lengths) and proved equal to the ones the model uses by rfl/decide (23 theorems consts_match_model_*)',
 'level_text': '36 theorems proved in Lean for all inputs about a hand-written model of uuid.UUID, UUIDv1, UUIDv2, UUIDv8 and guid.GUID '
               '(with the three fix patches): Marshal is a bijection between in-width fields and all 2^128 byte values '
               '(uuid_marshal_bijective, uuid_fields_roundtrip, uuid_bytes_roundtrip and the v1/v2/v8 analogues); String/FromString are '
               'inverse in both directions in either letter case (*_parse_then_string, *_string_then_parse); UUIDv1 Time, NodeID and byte '
               "layout equal RFC 4122's bit fields (v1_eq_rfc4122, v1_marshal_eq_rfc4122, v1_accepts_iff_version1); GUID "
               'ToBytes/FromRawBytes are inverse and equal the MS-DTYP packet (fromRaw_toBytes_inverse, guid_bytes_eq_msdtyp); for each of '
               'N/D/B/P/X parse(format g) = g for any case/white space and format(parse s) = lower(trim s) (guid_format_then_parse, '
               'guid_parse_then_format), texts equal the MS-DTYP/.NET forms (guid_text_eq_msdtyp), FromString is exactly the union of the '
               'five (fromString_dispatch), no parser panics. The RFC 4122 14-bit clock sequence is NOT met (finding clockseq12: '
               'counterexample theorems + partial theorems). The model is tied to the code by running both on the same generated inputs on '
               'every run. Constants tie: 23 theorems consts_match_model_* restate the model functions with the numbers regenerated from '
               'the current source (nibble masks, shifts and byte positions of UUID.Marshal/Unmarshal, field masks, shifts, positions, '
               'widths and byte orders of UUIDv1/UUIDv2 with their version numbers, byte positions and shifts of '
               'GUID.FromRawBytes/ToBytes, the 16-byte minimum lengths) in place of their literals; a changed constant in the source makes '
               'the theorem named after the function fail.',
 'level_note': 'Trusted: Lean kernel; axioms propext, Classical.choice, Quot.sound; the hand model is tied to the Go code by differential '
               'testing and, for the constants covered by consts_match_model_*, by regeneration from the source (control flow: '
               'differential testing only, bounded, ASCII text); stdlib semantics (strconv, hex, fmt, regexp, strings) as modelled. '
               "'Reproduces the input' is read as lower(input) for UUIDs and lower(trim(input)) for GUIDs. UUIDv2 is checked for round "
               'trips within the widths the code gives its fields (28 timestamp bits, 4 clock bits; DCE 1.1 has 6 clock bits) — no '
               'standard is named for v2 by the property.'}
