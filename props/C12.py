# configuration of ./check for property C12 (see props_config.py)
CONFIG = {'gen': ['ConstsC12'],
 'rule': 'cases = RC4 histories (every key length 1..256 x random chunkings incl. empty chunks, data lengths around '
         '0/1/15..17/31..33/255..257/700 and the RFC 6229 keys with 4128-byte streams; in-place, disjoint, partially overlapping and '
         'too-short destinations; invalid key sizes; Reset inside a history = tie only), CMAC histories (AES-128/192/256, DES, 3DES and '
         'two toy block functions given as tables of true (input,output) pairs traced from the real code and from a reference; RFC 4493 '
         'and SP 800-38B TDES vectors; message lengths k*n-1,k*n,k*n+1 x chunkings; every two-way split of every length 0..2n+1; random '
         'Write/Sum(prefix)/Reset interleavings; unsupported block sizes), PKCS#7 (every block size 0..255 x lengths around multiples, pad '
         'and unpad(pad); every buffer of length <= 6 over {0,1,2,3} and <= 5 over {0,2,5,255}; valid paddings 1..255 with one byte '
         'damaged / truncated; random long buffers), GPP (Unicode passwords incl. astral and boundary code points: encrypt, '
         'decrypt(encrypt), decrypt of padded / unpadded / partially padded base64; arbitrary plaintexts incl. odd lengths and lone '
         'surrogates; damaged / partial ciphertexts; base64 with newlines, garbage, over-padding; invalid UTF-8 passwords), and the Lean '
         "models of base64 / UTF-8 / UTF-16 against Go's standard library; distinct = distinct input line; non-trivial = implementation "
         'output is a non-empty value',
 'assumptions': ['AES/DES are not modelled: block functions are parameters of every theorem; at run time they are tables of true (input, '
                 "output) pairs computed by Go's crypto/aes, crypto/des (a missing pair makes the Lean side answer `miss`, which counts as "
                 'a disagreement)',
                 'GPP: `D (E x) = x` and `|E x| = 16` on 16-byte blocks are hypotheses of gpp_decrypt_encrypt (true of AES-256)',
                 'Go semantics of encoding/base64.StdEncoding, []rune(string), string([]rune), unicode/utf16, crypto/cipher CBC, '
                 'crypto/subtle as modelled in Manticore.C12.Prim / PKCS7 (the Prim models are compared with the Go standard library on '
                 'every run)',
                 "a Go string given to GPPPEncrypt is identified with its bytes; 'Unicode password' = UTF-8 of a list of scalar values",
                 "RC4 buffer aliasing is modelled by the relative offset of dst and src inside one allocation (or 'different "
                 "allocations')"],
 'trusted': ['Go crypto/aes, crypto/des, crypto/cipher, encoding/base64, unicode/utf16, crypto/subtle (stdlib)',
             "Go crypto/rc4 and the harness's reference CMAC (RFC 4493 / SP 800-38B vectors checked at start-up) only as cross-checks of "
             'the Lean specs'],
 'technique': 'Lean 4 proof (simulation of the uint8 RC4 by the textbook algorithm on naturals; representation invariant + induction over '
              'byte/op lists for CMAC with an arbitrary block function; big-endian arithmetic for the subkeys; characterisation of the '
              'constant-time unpad loop; round-trip lemmas for base64/UTF-8/UTF-16/CBC) about hand models; models tied to the Go code by '
              'differential correspondence; spec oracles on the same inputs; constants regenerated from the source on every run by a '
              'go/ast fact extractor (Gen/ConstsC12: PKCS#7 block bound 1, the 255 loop cap and padding bounds, CMAC r64/r128 with block '
              'sizes 8/16, shift1 carry and shift, RC4 key-length bounds 1..256 and table size, the GPP AES key literal, zero IV and '
              'base64 re-padding arithmetic) and proved equal to the ones the model uses by rfl/decide (13 theorems consts_match_model_*)',
 'level_text': '25 theorems proved in Lean for all inputs about hand-written models of crypto/rc4, crypto/cmac, crypto/pkcs7 and '
               'crypto/gppp: RC4 = textbook RC4 for every key of 1..256 bytes, every message and every history of contract-respecting '
               'XORKeyStream calls (rc4_eq_spec, rc4_xor_chunking, rc4_history_eq_spec, rc4_guard, rc4_key_size, rc4_involution); CMAC = '
               'SP 800-38B for an arbitrary 8- or 16-byte block function, every message, every chunking and every Write/Sum/Reset history, '
               'incl. the subkey derivation (cmac_subkeys_spec, cmac_stream_eq_spec, cmac_history_eq_spec, cmac_sum_idempotent, '
               'cmac_sum_does_not_disturb_writes, cmac_reset_is_new, cmac_new_ok_iff); unpad(pad(m,b)) = m for all m and b in 1..255, '
               'Unpad accepts exactly the validly padded buffers and never panics (pkcs7_*); GPP encryption is '
               'base64(AES-256-CBC_zeroIV(pkcs7(utf16le(p)))) for an abstract block cipher, decrypt(encrypt(p)) = p for every Unicode '
               'password given D(E(x)) = x, unpadded base64 is accepted, decryption is total and agrees with the specification on every '
               'ciphertext (gpp_*). The models are tied to the code by running both on the same generated inputs on every run, and the '
               "implementation is compared with independent readings of the standards (Lean specs, themselves cross-checked against Go's "
               'crypto/rc4 and a reference CMAC). Constants tie: 13 theorems consts_match_model_* restate the model functions with the '
               'numbers regenerated from the current source (PKCS#7 block bound 1, the 255 loop cap and padding bounds, CMAC r64/r128 with '
               'block sizes 8/16, shift1 carry and shift, RC4 key-length bounds 1..256 and table size, the GPP AES key literal, zero IV '
               'and base64 re-padding arithmetic) in place of their literals; a changed constant in the source makes the theorem named '
               'after the function fail.',
 'level_note': 'Trusted: Lean kernel; axioms propext, Classical.choice, Quot.sound; the hand models are tied to the Go code only by '
               'differential testing (bounded); AES/DES/CBC/base64/UTF-16 of the Go standard library; that the block function is AES-256 '
               'under the published key is checked at run time only (tables computed by crypto/aes under Manticore.C12.GPP.Spec.msKey). '
               'The GPP theorems hold for the tree with fixes/C12-gppp-odd-length.diff applied (before it, GPPPDecryptBytes panicked on '
               'odd-length plaintexts).'}
