# configuration of ./check for property C20 (see props_config.py)
CONFIG = {'gen': ['ConstsC20'],
 'rule': 'cases = IPv4: every prefix length 0..32 (plus 33/64/255) x addresses at the subnet boundaries (network, last, one below, one '
         'above, last-network-bit and first-host-bit flipped, 0, 255.255.255.255) x three choices of subnet argument, CIDRMask grid, '
         'print/parse over boundary octets, malformed CIDR strings (specials + mutations), range triples at boundaries; IPv6: print/parse '
         'over boundary groups, malformed strings, subnet/range triples that are neighbours in the 128-bit order incl. the '
         'high-half/low-half lexicographic trap; ports: 21x21 boundary grid 0..65535, padded with pattern white space, numbers around '
         '65535, mutations, specials; LM:NT: the four forms x each of the 25 Unicode white-space runes on either side, near-white-space '
         'bytes, wrong lengths, mutations, raw bytes, each also as a letter-case metamorphic case; distinct = distinct input line; '
         'non-trivial = implementation output is a value (not err / nil)',
 'assumptions': ['strconv.ParseUint (explicit base), fmt %d/%x, strings.Split/Contains/TrimSpace and the two regexp patterns behave as '
                 'modelled on bytes (checked differentially on every run, not proved)',
                 'the repository tree has fixes/C20-*.diff applied (ipv4 parse, IsInSubnet, LM:NT trim, port white space)'],
 'trusted': ['net/netip and Go regexp/strconv as independent oracles for the Lean spec ops'],
 'technique': 'Lean 4 proof (induction over digit lists / byte strings; bit-level lemmas by testBit extensionality; omega) about a hand '
              'model of the patched code; model tied to the Go code by differential correspondence; arithmetic spec oracle on the same '
              'inputs, itself cross-checked against net/netip; constants regenerated from the source on every run by a go/ast fact '
              'extractor (Gen/ConstsC20: one-byte separators, part counts 2/4/8, ParseUint bases and widths, the /32 bound, shifts of '
              'ToUInt32/ToUInt128, the 0xFFFFFFFF<<(32-n) mask, byte masks of ComputeMask, port bounds 0..65535, format strings, the '
              'port-range and LM:NT regexp literals, the hash length 32) and proved equal to the ones the model uses by rfl/decide (18 '
              'theorems consts_match_model_*)',
 'level_text': 'Proved in Lean for all inputs about a hand-written model of network/ip and ParseLMNTHashes (patched tree): '
               'ipv4_print_parse (all addresses x prefixes 0..32), ipv6_print_parse, port_print_parse and port_parse_padded (all port '
               'pairs, all pattern white space), mask_spec / subnet_spec (all addresses, all p <= 32: bit operations = division by '
               '2^(32-p)), range_spec, ipv6_range_spec (lexicographic pair = 128-bit order), ipv6_subnet_spec (/128), the parsers never '
               'panic (ipv4/ipv6/port/lmnt _total), lmnt_spec (full characterisation on every byte string), lmnt_trim_invariant (all '
               'Unicode white-space paddings, all strings), lmnt_case_invariant, lmnt_never_drops_valid, lmnt_nt_only. The model is tied '
               'to the code by running both on the same generated inputs on every run; the implementation is also compared with an '
               'arithmetic oracle. Constants tie: 18 theorems consts_match_model_* restate the model functions with the numbers '
               'regenerated from the current source (one-byte separators, part counts 2/4/8, ParseUint bases and widths, the /32 bound, '
               'shifts of ToUInt32/ToUInt128, the 0xFFFFFFFF<<(32-n) mask, byte masks of ComputeMask, port bounds 0..65535, format '
               'strings, the port-range and LM:NT regexp literals, the hash length 32) in place of their literals; a changed constant in '
               'the source makes the theorem named after the function fail.',
 'level_note': 'Trusted: Lean kernel; axioms propext, Classical.choice, Quot.sound; the hand model (incl. its byte-level models of '
               'strings.TrimSpace, strconv.ParseUint, fmt %d/%x and the two regular expressions) is tied to the Go code only by '
               'differential testing (bounded). The theorems hold for the tree with fixes/C20-*.diff applied; on the unpatched tree the '
               'harness reports violations (NewIPv4FromString panics/nil, IsInSubnet ignores the prefix, padded LM:NT strings give empty '
               'hashes). IPv6 has no prefix length in the library, so its subnet test can only be /128 equality.'}
