# configuration of ./check for property C19 (see props_config.py)
CONFIG = {'gen': ['C19Flags', 'C19Codes', 'C19NtStatus', 'C19NtErrors'],
 'rule': 'cases = (a) flag words through the real String()/FromBytes/GetFlags and every real bit predicate (called by name through '
         'reflection): every 8- and 16-bit word exhaustively, 32-bit words: 0, all ones, all named bits, their complement, every single '
         'bit, every all-but-one word, every pair of bits, random sparse/dense/uniform words; (b) every declared constant and every table '
         'row of the 17 code tables through the real String()/Description()/FromBytes, undeclared values exhaustively (8-bit; 16-bit in '
         'thorough) or neighbours + random, pairs of constants for uniqueness (all pairs whose real names collide, all neighbours, random '
         'pairs); (c) every declared NT status, its neighbours and random 32-bit values through the real String() and Error(); distinct = '
         'distinct input line; non-trivial = implementation output is a non-empty value A third of the FromBytes cases of the '
         'key-credential flag/enum types reuse a value that has decoded the complement before. c19.getflags is also compared with a '
         'specification: the declared non-reserved single-bit constants set in the word, ascending; set reserved bits may or may not be '
         'listed. c19.strmask: the rendering of a word equals the rendering of the word with every undeclared bit cleared.',
 'assumptions': ['Go map literals with constant keys have no duplicate keys (compile error otherwise); map lookup is first-match-free',
                 'sort.Strings / sort.Slice return the sorted permutation; strings.Join, fmt %d %s %08x, errors.New behave as modelled',
                 'a flag name is tied to its constant by the identifier convention of its const block (FLAGS2_DFS ~ "DFS", letters and '
                 'digits only)',
                 'which declared flag each predicate is about is the hand-written table predicateSpec (26 rows, MS-CIFS names)'],
 'trusted': ['tools/extract recognisers for C19 (their reading of /repo is replayed against the real functions on every table row and word '
             'class)'],
 'technique': 'Lean 4 proof: generic theorems by induction over the table / bit algebra for all words of any width; per generated table '
              'the decidable side conditions by decide +kernel (tables sorted inside the kernel by a verified merge sort); tables '
              'REGENERATED from /repo by a go/ast+go/types extractor on every run',
 'level_text': 'Generic theorems (decompose_sound_complete, decompose_each_set_bit_exactly_once, predicate_depends_only_on_its_bit, '
               'sorted_decomposition_independent_of_iteration_order, error_text_mentions_code) are proved for every table and every word. '
               'The tables they are applied to (6 flag families with 60 rows and 26 predicates, 16 code tables, 1799 NT status constants '
               "with both maps, the Error() format) are extracted from /repo's current source on every run; families_ok, code_tables_ok "
               'and the nt_* theorems decide their side conditions exhaustively over the generated tables, so a mask typo, a removed row, '
               'a duplicated or placeholder name or a predicate on the wrong mask stops the proof; the check then searches the real code '
               "for the word / constant. The extractor's reading is itself compared with the real functions on every run.",
 'level_note': 'Trusted: Lean kernel; axioms propext, Classical.choice, Quot.sound; the extractor and harness (unverified, cross-checked '
               'by running the real code on every row and on exhaustive 8/16-bit word sets); declared constants are taken as the reference '
               'for which bit a name means (the values themselves are not compared with MS-CIFS/MS-ADTS, whose PDFs are empty in this '
               'sandbox).'}
