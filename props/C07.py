# configuration of ./check for property C07 (see props_config.py)
CONFIG = {'gen': ['SmbCommands'],
 'drivers': ['Smb', 'C06', 'C08', 'C09', 'C10', 'C11', 'C12', 'C13', 'C14', 'C15', 'C16', 'C20'],
 'rule': 'cases = (a) for each of the 114 factory-reachable SMB command structures: valid encodings of generated assignments, every '
         'truncation of each, every position x {00,01,7f,80,fe,ff}, random splices and random bytes -> Unmarshal outcome class of the real '
         'code vs the IR semantics; (b) for each of the 55 other modelled decoding ops (C06 wire types x14, ParseChallengeMessage, '
         'ParseTargetInfo, ExtractNTLMToken, ParseNegTokenResp, LLMNR DecodeMessage / DecodeDomainName / ValidateDomainName, NBNS '
         'Unmarshal / FirstLevelDecode, NBT Receive over loopback TCP, pkcs7.Unpad, DecodeUTF16LE, GPPPDecryptBytes / Base64, UUID / '
         'UUIDv1 / v2 / v8 Unmarshal and FromString, UUIDv1.FromBytes, GUID FromRawBytes / FromFormatN,D,B,P,X / FromString, '
         'KeyCredential.FromBytes, RSAKeyMaterial / CustomKeyInformation / KeyCredentialVersion .FromBytes, DNWithBinary.Parse, '
         'ConvertToBinaryIdentifier, ConvertFromBinaryTime, the two LDAP time parsers, ParseSIDFromBytes, GetDomainFromDistinguishedName, '
         "NewIPv4/IPv6FromString, NewTCPPortRangeFromString, ParseLMNTHashes): ~10 valid inputs (the owning property's generator filtered "
         'by op, or builders calling the real encoders) and a few rejected ones; from each: every truncation, every position x '
         '{00,01,7f,80,fe,ff}, every 16-/32-bit window x {0,1,2,7f,80,ff,100,7fff,8000,fffe,ffff,len,len-pos,...} in both byte orders, '
         'splices with other valid inputs, chunk deletion / duplication / insertion, trailing bytes (sampled to ~2500 cases per op quick, '
         'x4 thorough); for text parsers every truncation, each separator doubled / removed / replaced, digit runs replaced by over-long '
         'ones (2^64, 23 nines, 300 zeros), NUL / 0x80 / UTF-8 letters / U+2003 inserted at every position; then empty input, all-00 / '
         'all-ff of 14 lengths, random bytes / random text; LLMNR offsets {0,1,len-1,len,len+1,12,65535,2^31,2^62-1} and negative ones; '
         'real code vs model (tie) and "never panic, never time out" on every case; (c) campaign only, no model line (44 ops): Message / '
         'Header / Parameters / Data.Unmarshal, AuthContext.ProcessChallengeToken, LLMNR DecodeQuestion / DecodeResourceRecord, '
         'UUIDv1/v2/v8.FromBytes, KeyStrength / KeySource / SecretEncryptionType .FromBytes, the three SecurityFeatures blocks, the 28 '
         'TRANS2 information levels (stub bodies). The input slices have capacity = length. distinct = distinct line; non-trivial = not '
         'the plain error outcome Allocation audit: after the parallel pass every campaign case is re-run sequentially and '
         'runtime.MemStats.TotalAlloc must stay within 256 KiB + 1 KiB per input byte (measured per chunk of 64 cases, bisected to the '
         'single case); decimal fields are also driven to 2^24, 2^28, 2^30, 2^32, 2^63-2. Ops that run in worker processes (LLMNR, NBNS) measure their own allocation in the worker; four ~40000-byte inputs per text op are judged one by one against 256 KiB + 64 bytes per input byte.',
 'assumptions': ['allocation: the theorems *_alloc_bound are about cost functions written beside the hand models (…AllocOf, allocCmd over '
                 'the command IR) that follow the Go make / append / copy statements in their order; they are hand transliterations like '
                 'the models and are not tied to the real code by an M op of their own (the allocation audit measures the real code; the '
                 "SMB predicate AllocGuarded is decided on the regenerated programs); the Go runtime's per-object overhead, append growth "
                 'factors (at most 2), error values, fmt temporaries and stdlib scratch space are measured by the audit only (256 KiB + 1 '
                 'KiB per input byte per case, GOMEMLIMIT behind it)',
                 'stdlib internals (encoding/asn1, base64, hex, strconv, regexp, utf16, crypto/aes) do not panic',
                 'the repairs fixes/C07-*.diff (and the earlier fixes/C03-data-unmarshal-guard, C06-*, C08-*, C12-gppp-odd-length, '
                 'C13-guid-strict-dbp, C20-ipv4-parse) are applied to the tree under test, fixes/C07-dn-domain-quadratic.diff '
                 'included (C16.dnAllocOf follows the strings.Builder loop; C16.dnAllocConcat keeps the old quadratic cost)',
                 'integer arguments of exported decoders other than the LLMNR offsets are not inputs of the property; negative LLMNR '
                 "offsets are covered by the campaign only (the model's offsets are naturals)"],
 'trusted': ['tools/extract/smb_commands.go (statement-by-statement translation of the 115 Marshal/Unmarshal bodies into the command IR; '
             'aborts on unknown shapes; its output is tied to the real code on every run)',
             'Go slice semantics incl. capacity of Data.Bytes and of the stream built by GetBytesStream (runtime growth policy 8,16,…,512) '
             'as modelled in SmbIR/SmbCmd',
             'nested wire types through the C06 models (Manticore/Model/C06.lean, SmbCodecs adapters)',
             "the hand models Manticore/Model/C08..C16, C20 (each tied to the real code by its own property's check and, on malformed "
             'input, by this campaign)'],
 'technique': 'Lean 4: kernel-decided Guarded predicate (every slice/index dominated by an implying length check) over unmarshal programs '
              'regenerated from /repo on every run, with a soundness proof of the predicate for the IR semantics (abstract interpretation: '
              'Known interpreted at run-time states); per-entry-point totality theorems of the hand models of all other decoders '
              '(induction over the input / over the entry and pointer walks; termination = totality of the Lean definitions); differential '
              'truncation / corruption / field-extreme / splice campaign against the real code with every panic or timeout reported as a '
              'violation keyed by the innermost repo function; allocation: cost semantics of the command IR summing what every statement '
              'reached materialises on every path (error returns included), a kernel-decided static predicate (every make by a wire count '
              'directly behind the guard that implies it, every loop consuming input) with a soundness proof giving a bound linear in the '
              'input with constants computed from the program text; for the hand models allocOf functions following the Go make calls, '
              "bounded for every input by induction over the decoders' loops, with the decoded value proved no bigger than the allocation; "
              'allocation audit of the real code (TotalAlloc per case against 256 KiB + 1 KiB per input byte, bisected to the case)',
 'level_text': 'SMB commands: the kernel decides on the unmarshal programs regenerated from /repo that in all 115 command structures every '
               'slice and index expression — the P[4:] of the AndX stanza included, which is accepted only behind the AndX.Unmarshal(P) '
               'that fails below four bytes — is dominated by a length check that implies it (smb_all_commands_guarded; a dropped or '
               'weakened guard makes the theorem fail and the campaign then looks for the panicking input); the static predicate is proved '
               'sound for the IR semantics (guarded_sound, std_honest), hence smb_decode_total: decodeCmd std c env0 data != panic for '
               'each of the 115 commands and every input; the envelope split and the 14 nested wire types never panic and report 0 < n <= '
               'len(data) (smb_split_total, *_decode_total, *_decode_bounded). Every other decoding entry point is covered by a proved '
               'theorem about its hand model, for all inputs: ntlm_challenge_parse_total, ntlm_target_info_total, spnego_extract_total, '
               'spnego_neg_token_resp_total, spnego_process_challenge_total; llmnr_decode_message_total, llmnr_decode_name_total, '
               'llmnr_name_alloc_bound; nbns_unmarshal_total, nbns_first_level_decode_total, nbt_receive_total; '
               'pkcs7_unpad_total/_bounded, gpp_decrypt_bytes_total, gpp_decrypt_base64_total, utf16_decode_total, utf16_decode_units; '
               'uuid_unmarshal_total, uuid_v1/v2/v8_unmarshal_total, uuid_from_bytes_total, uuid_from_string_total, '
               'uuid_versions_from_string_total, guid_from_raw_bytes_total, guid_parse_total, guid_from_string_total; '
               'key_credential_parse_total, key_credential_integrity_total, key_credential_new_total, '
               'rsa_key_material_parse_total/_bounded, dn_with_binary_parse_total/_bounded, key_credential_time_total, '
               'key_credential_device_id_total; sid_total; ipv4_parse_total, ipv6_parse_total, port_range_parse_total, lmnt_parse_total. '
               'Allocation (38 theorems, summary table in the header of Props/C07.lean; size = one per byte of a string field, 8 per '
               'integer, summed over lists and map entries; cost functions follow the Go make/append/copy statements and count on every '
               'path, error returns included): smb_all_commands_alloc_guarded (kernel-decided on the regenerated programs: every make([]T, '
               'c.G) directly behind its guard, loops consume input), alloc_guarded_sound, std_alloc_codecs, smb_alloc_constants, '
               'smb_decode_alloc_bound (allocCmd <= 300*len + 154694 for each of the 115 commands and every input), '
               'smb_decode_value_alloc_bound, smb_string_/parameters_/data_/dialects_alloc_bound; llmnr_decode_message_alloc_bound '
               '(polynomial: 48 + len + count*(len^2+32), name compression), llmnr_rdata_alloc_bound; nbns_unmarshal_alloc_bound (8*len), '
               'nbns_rdata_/nbns_first_level_decode_alloc_bound; nbt_receive_alloc_bound (fixed cap 131075: the body is allocated from the '
               'announced 17-bit length before it is read); key_credential_parse_alloc_bound (2*len allocated, 3*len+160 in all), '
               'rsa_key_material_parse_/custom_key_information_/dn_with_binary_parse_/key_credential_identifier_/key_credential_fixed_alloc_bound; '
               'ntlm_target_info_alloc_bound (stored <= 2*len on every path, entries <= len/4), '
               'ntlm_challenge_parse_/asn1_field_/spnego_neg_token_resp_/spnego_extract_/spnego_process_challenge_alloc_bound (<= 327811); '
               'pkcs7_unpad_/utf16_decode_ (9 per code unit)/gpp_decrypt_bytes_ (6*len+16)/gpp_decrypt_base64_alloc_bound (7*len+32); '
               'sid_alloc_bound (10*len), dn_domain_alloc_bound (result <= len, allocated <= 17*len+16 since the repair of the quadratic '
               '`domain += …` loop), '
               'uuid_guid_/ldap_time_/address_parsers_fixed_alloc_bound. No site in the tree allocates by an announced count before '
               'checking it; a make moved in front of its check is reported by the allocation audit (DNWithBinary.Parse: B:16777216::) or, '
               "below the audit's allowance, by the broken theorem (TransactionRequest Setup). Models that are plain total functions need "
               'no theorem (CustomKeyInformation.FromBytes, ConvertToBinaryIdentifier, KeyCredentialVersion.FromBytes, the LDAP time '
               'parsers, GetDomainFromDistinguishedName, ValidateDomainName). Covered by the campaign only (no Gen-free model): Message / '
               "Header / Parameters / Data.Unmarshal (their model is C03's, which imports the regenerated dispatch table; Parameters and "
               'Data also through parameters_/data_decode_total), DecodeQuestion / DecodeResourceRecord as separate entry points (inside '
               'DecodeMessage they are in the model), negative LLMNR offsets, UUIDv2/v8.FromBytes on the real code, KeyStrength / '
               'KeySource / SecretEncryptionType .FromBytes, SecurityFeatures blocks, the 28 information levels, non-ASCII text into the '
               'UUID / GUID text parsers (the C13 model is ASCII). On every run the campaign feeds ~135 000 (quick) / ~790 000 (thorough) '
               'malformed inputs to the real code and compares the outcome class with the model; on the unpatched tree it reproduces every '
               'repaired panic (8717 mismatching cases).',
 'level_note': 'Trusted: Lean kernel; axioms propext, Classical.choice, Quot.sound; extractor and IR semantics, and the hand models, tied '
               'to the real code by differential testing (bounded); Go runtime behaviour (stack depth, per-object overhead, append growth, '
               'stdlib scratch) is observed under a per-op timeout, the allocation audit and GOMEMLIMIT, not modelled; the allocation '
               'theorems are about hand-written cost functions beside the models.'}
