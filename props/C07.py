# configuration of ./check for property C07 (see props_config.py)
CONFIG = {'gen': ['SmbCommands'],
 'drivers': ['Smb'],
 'rule': 'cases = for each of the 114 factory-reachable command structures: valid encodings of generated assignments, every truncation of '
         'each, every position x {00,01,7f,80,fe,ff}, random splices and random bytes -> Unmarshal outcome class (value / error / panic / '
         "timeout) of the real code vs the IR semantics; the specification is 'never panic, never hang'. distinct = distinct line; "
         'non-trivial = not the plain error outcome',
 'assumptions': ['allocation is bounded by the input because every slice of the models is a sub-slice of the input or of a stream no '
                 'longer than the input; real memory use is additionally capped by GOMEMLIMIT in the harness',
                 'stdlib internals do not panic'],
 'trusted': ['tools/extract/smb_commands.go (statement-by-statement translation of the 115 Marshal/Unmarshal bodies into the command IR; '
             'aborts on unknown shapes; its output is tied to the real code on every run)',
             'Go slice semantics incl. capacity of Data.Bytes and of the stream built by GetBytesStream (runtime growth policy 8,16,…,512) '
             'as modelled in SmbIR/SmbCmd',
             'nested wire types through the C06 models (Manticore/Model/C06.lean, SmbCodecs adapters)'],
 'technique': 'Lean 4: kernel-decided Guarded predicate (every slice/index dominated by an implying length check) over unmarshal programs '
              'regenerated from /repo on every run, with a soundness proof of the predicate for the IR semantics (abstract '
              'interpretation: Known interpreted at run-time states); totality theorems of the hand models of the other decoders; differential '
              'truncation/corruption campaign against the real code',
 'level_text': 'The kernel decides on the unmarshal programs regenerated from /repo that in all 115 command structures every slice and '
               'index expression is dominated by a length check that implies it (smb_all_commands_guarded; a dropped or weakened guard '
               'makes the theorem fail and the campaign then looks for the panicking input); the envelope split never panics '
               '(smb_split_total); the other decoding entry points are proved total on their own models (re-exported theorems). On every '
               'run every truncation and single-byte boundary corruption of valid encodings is fed to the real Unmarshal of all 114 '
               "commands and compared with the model's outcome. The static predicate is proved sound for the IR semantics "
               '(guarded_sound: Guarded c -> runU C c … != panic for all streams, capacities, word counts and field values, given honest '
               'nested decoders; std_honest: the codec table in use is honest, from per-type totality/boundedness theorems of the C06 '
               'decoders), hence smb_decode_total: decodeCmd std c env0 data != panic for each of the 115 commands and every input.',
 'level_note': 'Trusted: Lean kernel; axioms propext, Classical.choice, Quot.sound; extractor and IR semantics tied by differential '
               'testing (bounded); Go runtime behaviour (stack depth, allocation) is observed, not modelled.'}
