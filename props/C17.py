# configuration of ./check for property C17 (see props_config.py)
CONFIG = {'gen': ['NbtnsLocks'],
 'rule': 'cases = (a) sequential histories of RegisterName/QueryName/ReleaseName/RefreshName/MarkNameConflict/CleanExpiredNames on a fresh '
         'NetBIOSNameServer, one history per line: every history of depth 4 (quick; thorough: depth 5, and depth 6 with positive TTLs) '
         'over 2 names x 2 types x 3 addresses x ttl sign, enumerated up to renaming of names/addresses; the ordering scenarios named by '
         'the property; random histories up to length 200 over up to 4 names x 5 addresses (each address passed alternately as 4-byte and '
         '16-byte net.IP); each history is run twice on the real code: results in slice order vs the Lean heap model (tie) and results as '
         "sets + 'result unchanged at the end' flags vs the atomic-map spec (property); (b) concurrent executions: 2-4 goroutines, <= 12 "
         'calls in total, recorded with invocation/response stamps in a child process built with -race, every recorded history decided by '
         'the Lean op `linz`; distinct = distinct input line; non-trivial = implementation output is a non-empty value',
 'assumptions': ['sync.RWMutex has the enabling conditions of the lock machine (Model/RWLock.lean, Lock.canAcquire): Lock() proceeds iff '
                 'no reader and no writer holds the mutex, RLock() proceeds iff no writer holds it; writer preference and fairness are not '
                 'assumed (they only remove schedules). The bodies of the six Go methods are, between the lock call and the deferred '
                 'unlock the extractor found, the micro-steps of Model/C17Locks.lean (look up / update / ...): their composition is proved '
                 'equal to the sequential model `step`, which the correspondence runs tie to the code; the split into micro-steps itself '
                 'and the Go memory model below it (accesses under the mutex are sequentially consistent; a data race would void this) are '
                 "assumed. Given these, atomicity of a method is a theorem (rwlock_serializable), not an assumption; Go's scheduler is "
                 "covered as 'any schedule'",
                 'time is abstracted to the sign of the ttl argument; the harness uses +-1h so the wall clock never decides',
                 'addresses are classes of net.IP.Equal; names are opaque strings; NameType values other than Unique/Group are outside the '
                 'alphabet',
                 'Go slice semantics (append in place when cap allows, growth allocates, copy) as encoded in the heap model; capacity '
                 'growth rule is unobservable',
                 'race detector: built on the fly with `go build -race` (needs cgo/gcc, available offline here); if that build fails the '
                 'run says so in evidence.extra.concurrent.race_build and the concurrent part runs without it'],
 'trusted': ['sync.RWMutex: the two enabling conditions above (safety part of its contract) and the Go memory model for accesses under it',
             'Go race detector (looks for races on the executed schedules, does not exclude them)'],
 'technique': 'Lean 4 proof: induction over operation sequences on a hand model (value level + slice/heap level), refinement to an '
              'atomic-map specification, extracted lock facts decided by the kernel; a generic small-step interleaving semantics of '
              'critical sections under a readers-writer lock (threads, micro-steps, arbitrary schedules) with mutual exclusion proved as '
              'an invariant and serializability proved by forward simulation (linearization point = the acquire event), instantiated with '
              'the six methods split into look-up/update micro-steps whose lock modes are checked against the regenerated lock kinds; '
              'proved-correct Wing-Gong linearizability checker applied to recorded concurrent executions; model tied to the Go code by '
              'differential correspondence',
 'level_text': 'Theorems inv_init/inv_step/inv_reachable (ownership invariant for every history of any length), refines/refines_history '
               '(the table is the atomic map of the specification, equal results), no_panic_reachable, holds_frame + register_ok_holds + '
               'release_ok_not_holds (owners = registered and not released), unique_no_takeover, heap_refines/heap_refines_history '
               '(Go-slice model = value model), query_result_is_current, query_result_is_copy (later updates never change a returned '
               'result; alias_would_leak shows the copy is what makes it true), lock_discipline/writers_take_write_lock/query_copies '
               '(facts regenerated from nbtns.go, decided by the kernel), linz_iff (the checker used on concurrent executions is sound and '
               'complete); and for EVERY interleaving of any number of threads below method granularity: rwlock_mutual_exclusion (a writer '
               'inside its critical section is alone, readers overlap only with readers, the lock word is exact), '
               'rwlock_writer_uninterrupted, rwlock_reader_sees_stable_state, rwlock_serializable (every complete schedule of critical '
               "sections made of micro-steps under a readers-writer lock with Go's enabling conditions equals some sequential order of "
               'whole critical sections: same final state, same result for every call, real-time order respected; linearization point = '
               'acquire), critical_sections_compose_to_step (the look-up/update micro-steps of the six methods compose to the sequential '
               'model), critical_section_modes_are_the_source_lock_kinds (writer/reader = Lock/RLock as regenerated from nbtns.go), '
               'name_table_interleavings_are_sequential_histories and name_table_linearizable_under_lock_discipline (every interleaving is '
               'Linearizable, ends in a table satisfying the invariant and answers every call as the atomic map does), '
               'write_under_read_lock_is_not_serializable (RegisterName under RLock lets two registrations of a unique name both succeed) '
               'are proved in Lean for all inputs about a hand-written model of nbtns.go; the model is tied to the code by running both on '
               'the same histories on every run.',
 'level_note': "Schedules: every interleaving of the methods' micro-steps is proved equivalent to a sequential history, for the lock "
               "machine of Model/RWLock.lean. What is assumed instead of 'a method is atomic' is exactly: sync.RWMutex's two enabling "
               'conditions, and that the Go bodies perform the modelled micro-steps between the lock calls the extractor found (plus the '
               'Go memory model for race-free programs). The harness still observes 2-4 goroutines under the race detector and checks '
               'every recorded history with the proved checker; that now serves as a test of these assumptions. Trusted: Lean kernel; '
               'axioms propext, Classical.choice, Quot.sound; hand model tied by differential testing (bounded); extractor '
               'tools/extract/nbtns_locks.go.'}
