# configuration of ./check for property C17 (see props_config.py)
CONFIG = {'gen': ['NbtnsLocks'],
 'rule': 'cases = (a) sequential histories of RegisterName/QueryName/ReleaseName/RefreshName/MarkNameConflict/CleanExpiredNames on a fresh '
         'NetBIOSNameServer, one history per line: every history of depth 4 (quick; thorough: depth 5, and depth 6 with positive TTLs) '
         'over 2 names x 2 types x 3 addresses x ttl sign, enumerated up to renaming of names/addresses; the ordering scenarios named by '
         'the property; random histories up to length 200 over up to 4 names x 5 addresses (each address passed alternately as 4-byte and '
         '16-byte net.IP); each history is run twice on the real code: results in slice order vs the Lean heap model (tie) and results as '
         "sets + 'result unchanged at the end' flags vs the atomic-map spec (property); (b) concurrent executions: 2-4 goroutines, <= 12 "
         'calls in total, recorded with invocation/response stamps in a child process built with -race, every recorded history decided by '
         'the Lean op `linz`; distinct = distinct input line; non-trivial = implementation output is a non-empty value',
 'assumptions': ['each method of NetBIOSNameServer is one atomic step: justified by the extracted lock facts (first statement '
                 'mu.Lock/RLock, deferred matching unlock, no early unlock, writers hold the write lock) and the contract of sync.RWMutex; '
                 "Go's scheduler itself is not modelled",
                 'time is abstracted to the sign of the ttl argument; the harness uses +-1h so the wall clock never decides',
                 'addresses are classes of net.IP.Equal; names are opaque strings; NameType values other than Unique/Group are outside the '
                 'alphabet',
                 'Go slice semantics (append in place when cap allows, growth allocates, copy) as encoded in the heap model; capacity '
                 'growth rule is unobservable',
                 'race detector: built on the fly with `go build -race` (needs cgo/gcc, available offline here); if that build fails the '
                 'run says so in evidence.extra.concurrent.race_build and the concurrent part runs without it'],
 'trusted': ['sync.RWMutex', 'Go race detector (looks for races on the executed schedules, does not exclude them)'],
 'technique': 'Lean 4 proof: induction over operation sequences on a hand model (value level + slice/heap level), refinement to an '
              'atomic-map specification, extracted lock facts decided by the kernel, proved-correct Wing-Gong linearizability checker '
              'applied to recorded concurrent executions; model tied to the Go code by differential correspondence',
 'level_text': 'Theorems inv_init/inv_step/inv_reachable (ownership invariant for every history of any length), refines/refines_history '
               '(the table is the atomic map of the specification, equal results), no_panic_reachable, holds_frame + register_ok_holds + '
               'release_ok_not_holds (owners = registered and not released), unique_no_takeover, heap_refines/heap_refines_history '
               '(Go-slice model = value model), query_result_is_current, query_result_is_copy (later updates never change a returned '
               'result; alias_would_leak shows the copy is what makes it true), lock_discipline/writers_take_write_lock/query_copies '
               '(facts regenerated from nbtns.go, decided by the kernel), linz_iff (the checker used on concurrent executions is sound and '
               'complete) are proved in Lean for all inputs about a hand-written model of nbtns.go; the model is tied to the code by '
               'running both on the same histories on every run.',
 'level_note': 'PARTIAL for schedules: histories (all lengths) are proved; concurrent interleavings are not modelled below method '
               'granularity. Atomicity of a method is an assumption resting on the extracted lock facts and sync.RWMutex; the harness '
               'observes 2-4 goroutines under the race detector and checks every recorded history for linearizability with the proved '
               'checker, which bounds but does not prove the concurrent clause. Trusted: Lean kernel; axioms propext, Classical.choice, '
               'Quot.sound; hand model tied by differential testing (bounded); extractor tools/extract/nbtns_locks.go.'}
