# configuration of ./check for property C01 (see props_config.py)
CONFIG = {'gen': ['Md4Kernel'],
 'rule': 'cases = (a) MD4 histories on one running hash, one line each: messages of every length 0..200 cut in two at every position '
         '(thorough: four passes with fresh messages), messages up to 4 KiB cut at 3-5 random places, with Sum()/HexSum() reads after '
         'every write / at random places / repeated / before the first write, always ending with Sum and HexSum; one-shot md4.Sum for '
         'every length 0..200 and random lengths up to 4 KiB; (b) EncodeUTF16LE and NTHash/NTHashHex on strings drawn from ASCII, BMP (2- '
         'and 3-byte, mixed case), astral (4-byte) and mixed pools, every scalar boundary, and ill-formed UTF-8 (tie only); (c) '
         'LMHash/LMHashToHex on every 7-bit character in both halves, random 7-bit passwords of lengths 0..30 around 7/14, non-ASCII and '
         'ill-formed passwords (tie only: outside the statement); (d) DCC and DCC2 (both entry points, from password and from NT hash, '
         "raw/hex/hashcat forms) with user names from the four pools incl. empty, 'Dom#A:in\\' prefixes, rounds in "
         '{1,2,3,7,10,100,1000,10240} and <= 0 (tie only); (e) the Lean DES primitive against crypto/des (random, parity variants, '
         'single-bit keys/blocks). distinct = distinct input line; non-trivial = implementation output is a non-empty value Call families '
         'whose arguments coincide when written one after the other (rounds/user digits moved across the boundary, password/user split '
         'elsewhere), run in sequence in one process: every call must be answered for its own arguments (result caches with ambiguous '
         'keys).',
 'assumptions': ['Go language/stdlib semantics as modelled: []rune(string) (ill-formed byte -> U+FFFD, one byte consumed), '
                 'unicode/utf16.Encode, strings.ToUpper/ToLower (ASCII fast path modelled concretely; the Unicode case tables are a '
                 'parameter of the model and the harness passes the stdlib result), hex.EncodeToString, fmt %s %d, copy/append, uint64 '
                 'wrap-around',
                 "MS-Cache lower-casing of non-ASCII user names is taken to be Go's unicode.ToLower (theorems are parametric in it; ASCII "
                 'names need no assumption)',
                 'RFC 1320 / RFC 3629 / RFC 2781 / MS-NLMP 3.3.1 / MS-Cache definitions as transcribed in Model/C01.lean namespace Spec; '
                 'each is cross-checked in every run against x/crypto/md4, unicode/utf16, crypto/des + textbook str_to_key, '
                 'x/crypto/pbkdf2'],
 'trusted': ["Prims/DES.lean (Lean DES, tables transcribed from Go's crypto/des/const.go; FIPS vectors at build time, crypto/des on every "
             'run)',
             'PBKDF2-HMAC-SHA1 is residual: evaluated by the harness with x/crypto/pbkdf2 for model and spec alike (theorems hold for any '
             'KDF)'],
 'technique': 'Lean 4 proof: generated MD4 kernel = RFC rounds (unfolding + bit lemmas); streaming = one-shot by induction over the chunk '
              'list with a buffer invariant, for an arbitrary compression function; UTF-8/UTF-16 by case analysis on code-point ranges '
              'with linear arithmetic; LM via bit-extensionality and a decide over the PC-1 table; DCC2 parametric in the KDF. Kernel '
              'regenerated from the Go source on every run; hand model tied by differential correspondence; spec cross-checked against '
              'independent implementations',
 'level_text': 'Theorems md4_kernel_eq_rfc (the 48 steps regenerated from processChunk = the three RFC 1320 rounds), md4_stream_eq_spec '
               '(every chunking of every message, any total length, gives the RFC digest), md4_history_eq_spec and md4_sum_pure (every '
               'interleaving of Sum/HexSum reads with writes; reads change nothing), '
               'utf16le_eq_spec/utf16le_roundtrip/gostring_runes_of_utf8 (all scalar values incl. non-BMP), nt_eq_spec, lm_eq_spec (all '
               '7-bit passwords; key spread = str_to_key modulo parity, DES ignores parity), dcc_eq_spec, dcc2_eq_spec (all rounds >= 1, '
               'any KDF) and the hex/hashcat output forms are proved in Lean for all inputs about a model whose compression function is '
               'regenerated from the Go source and whose buffering/string logic is hand-written and tied to the code by running both on '
               'the same generated inputs on every run.',
 'level_note': 'Trusted: Lean kernel; axioms propext, Classical.choice, Quot.sound; extractor and hand model tied to the Go code only by '
               'regeneration + differential testing (bounded); Go stdlib semantics as modelled (UTF-8 decoding, utf16.Encode, '
               'ToUpper/ToLower, hex, fmt); Lean DES validated by vectors and against crypto/des; PBKDF2-HMAC-SHA1 residual (x/crypto); '
               'Unicode case mapping of non-ASCII user names. The model is of the code after fixes/C01-md4-sum-pure.diff.'}
