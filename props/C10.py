# configuration of ./check for property C10 (see props_config.py)
CONFIG = {'gen': ['ConstsC10'],
 'rule': 'cases = (1) FirstLevelEncode/Decode: every byte value at every one of the 16 positions (4096 names, exhaustive per position), '
         "every length 0..20 with and without scope, random names over arbitrary bytes (wildcard '*'+15 NUL, trailing spaces, suffix "
         '0x20), valid scopes (LDH labels up to 63, totals up to the 255-octet wire limit) and invalid ones; decoding of mutated / '
         "truncated / over-long encodings and characters just outside 'A'..'P'; (2) Marshal->Unmarshal round trips of structured packets "
         '(header words biased to boundaries, 0..N entries in each of the four sections incl. a 3^4 section-size grid, RDATA 0..65535, '
         'some packets with wrong counts / RDLength / unrepresentable names); (3) Unmarshal on packets written by an independent RFC 1002 '
         'serializer and by miekg/dns, on every prefix, byte flips, label-string pointers, changed label lengths, raised counts, trailing '
         'bytes, random bytes and the pre-repair wire form; distinct = distinct input line; non-trivial = implementation output is a '
         'non-empty value. Half of the packet decodes go into a packet value that has already decoded a packet with one entry in each of '
         'the four sections.',
 'assumptions': ['*NetBIOSName fields of questions and records are non-nil; Unmarshal is called on a zero-valued packet',
                 'Marshal trusts the header counts and RDLength: the round-trip theorems assume counts = section sizes and RDLength = '
                 'len(RData)',
                 'strings.Split/SplitN/Join, bytes.TrimRight, append/copy and encoding/binary behave as modelled',
                 'the model describes the tree with fixes/C10-rfc1002-name-wire-form and C10-wildcard-name applied',
                 'a valid scope identifier is what isValidDomainName accepts (letters, digits, hyphen; labels 1..63, no hyphen at either '
                 'end)'],
 'trusted': ['github.com/miekg/dns v1.0.14 is used only as a third codec in L2; no theorem depends on it'],
 'technique': 'Lean 4 proof: kernel evaluation over all 256 byte values for the nibble map, list induction over positions, labels and '
              'sections; hand model tied to the Go code by differential correspondence; RFC 1001 §14.1 / RFC 1002 §4.1-4.2 spec (on top of '
              'the RFC 1035 grammar of Spec/DNS.lean) cross-checked against an independent Go encoder and miekg/dns on every run; '
              'constants regenerated from the source on every run by a go/ast fact extractor (Gen/ConstsC10: '
              'NetBIOSNameLength/EncodedNameLength/ASCII_A and each use, nibble shift and masks, pad and trim byte, label limits 63 and '
              'wire limit 255 with its +2, LDH character ranges, NBNS header offsets, question/record fixed sizes 4 and 10 and field '
              'offsets, byte order and write order) and proved equal to the ones the model uses by rfl/decide (19 theorems '
              'consts_match_model_*)',
 'level_text': 'Proved in Lean for all inputs about a hand-written model of FirstLevelEncode/FirstLevelDecode/Marshal/Unmarshal: the '
               'nibble arithmetic is the RFC 1001 half-ASCII map for all 256 byte values (l1_byte_spec, l1_chars_in_range) and '
               "FirstLevelEncode is the 32-character form of the space-padded name plus '.scope' (l1_encode_spec, l1_refuses_long); "
               'decoding the encoding returns the name modulo trailing-space padding and the scope (l1_roundtrip, l1_roundtrip_exact, '
               'l1_padding_insensitive); Marshal emits exactly the RFC 1002 message (marshal_eq_spec, name_wire_spec), which the '
               'independent RFC 1035/1002 reader parses to the same content (rfc1002_parses_model) and Unmarshal reads back in all four '
               'sections (packet_roundtrip); no input panics (unmarshal_never_panics, l1_decode_never_panics). The model is tied to the '
               'code by running both on the same generated inputs on every run. Constants tie: 19 theorems consts_match_model_* restate '
               'the model functions with the numbers regenerated from the current source (NetBIOSNameLength/EncodedNameLength/ASCII_A and '
               'each use, nibble shift and masks, pad and trim byte, label limits 63 and wire limit 255 with its +2, LDH character ranges, '
               'NBNS header offsets, question/record fixed sizes 4 and 10 and field offsets, byte order and write order) in place of their '
               'literals; a changed constant in the source makes the theorem named after the function fail.',
 'level_note': 'Trusted: Lean kernel; axioms propext, Classical.choice, Quot.sound; the hand model is tied to the Go code by differential '
               'testing and, for the constants covered by consts_match_model_*, by regeneration from the source (control flow: '
               'differential testing only, bounded); Go stdlib semantics as modelled. The theorems are about the repaired code (two fix '
               'patches in fixes/C10-*).'}
