# configuration of ./check for property C03 (see props_config.py)
CONFIG = {'gen': ['SmbDispatch'],
 'rule': 'cases = headers (boundary grid per field x 3 SecurityFeatures variants, random, Flags above 0xFF) marshalled and round-tripped; '
         'header decoding of random / every truncated length; GetPID/SetPID grid + random; Parameters scripts (AddWordsFromBytesStream '
         'with even/odd streams up to 257 words, AddWord) and decoding (valid, truncated, trailing, random); Data scripts up to 65537 '
         'bytes and decoding incl. 0..3-byte buffers; all 256 command codes x reply flag through both factories and through '
         'Message.Unmarshal; Message.Marshal called k = 1..4 times on one message for 7 concrete commands (Close, Echo, LogoffAndx, '
         'NtTransact, Transaction req/resp) and for the command template with arbitrary raw contents around the 255-word / 65535-byte '
         'limits; Message.Unmarshal on well-formed, every-prefix-truncated, trailing, corrupt-count and random messages; distinct = '
         'distinct input line; non-trivial = implementation output is a non-empty value c03.msg.remarshal: a message decoded from '
         'random-block bytes is marshalled three times; all three encodings must be identical.',
 'assumptions': ['encoding/binary Put/Uint16/32, append, copy and slice expressions behave as modelled (slices passed to decoders have '
                 'capacity = length)',
                 'a command enters the envelope only through the Marshal/Unmarshal template shared by all 115 concrete commands (nil-block '
                 'creation, AndX words, AddWordsFromBytesStream(rawParametersContent), Data.Add(rawDataContent)); how a command computes '
                 "its two raw contents from its fields, and reads them back, is property C04/C05/C07's subject and enters the model as "
                 'data',
                 'Header.SecurityFeatures is non-nil (NewHeader always sets it)',
                 'MS-CIFS command names and AndX set in Spec.commandNames / Spec.andxCodes are transcribed by hand from MS-CIFS 2.2.2.1 / '
                 '2.2.4'],
 'trusted': ['tools/extract/smb_dispatch.go reads the two factory switches, the New* constructors and codes.go (go/ast); its output is '
             'tied to the real factories on all 512 (code, reply) pairs in every run'],
 'technique': 'Lean 4 proof (bit-level lemmas for the 32-byte layout, induction over parameter words / repeated Marshal calls, kernel '
              'evaluation of the 512 dispatch rows on tables regenerated from the source) about a hand model; model tied to the Go code by '
              'differential correspondence; independent MS-CIFS reading of the same inputs as oracle',
 'level_text': 'Theorems header_roundtrip, header_layout_eq_spec / header_slot_eq_spec (MS-CIFS 2.2.3.1 offset table), '
               'header_unmarshal_exact, pid_get_set, dispatch_total (all 256 codes x reply flag, on tables regenerated from '
               '0.command_casting.go, the constructors and codes.go), marshal_eq_spec and frame_length (all block contents up to 255 words '
               '/ 65535 bytes; guard branch and truncation witnesses separately), marshal_repeatable (every number of repeated Marshal '
               'calls), message_roundtrip and message_unmarshal_envelope_total are proved in Lean for all inputs about a hand-written '
               'model of the patched envelope code; the model is tied to the code by running both on the same generated inputs on every '
               'run, and the implementation is compared with an independent reading of MS-CIFS on the same inputs.',
 'level_note': 'Trusted: Lean kernel; axioms propext, Classical.choice, Quot.sound; the hand model is tied to the Go code only by '
               'differential testing (bounded); commands are abstracted to the pair of raw contents they contribute (template shared by '
               'all concrete commands, checked on 7 of them and on a harness-defined command following the template); the extractor of the '
               'dispatch tables; encoding/binary and slice semantics as modelled. Header.Flags is declared uint16 but one byte is emitted: '
               'the round trip is stated for Flags <= 0xFF with the truncation witness.'}
