# configuration of ./check for property C09 (see props_config.py)
CONFIG = {'gen': ['ConstsC09'],
 'rule': "cases = (1) names: fixed grid (root, '.', empty labels, 63/64-byte labels, wire length 254..258) + random valid label lists over "
         'arbitrary bytes with lengths up to 63/255 + odd strings; (2) Encode->DecodeMessage round trips of structured messages (all '
         'header words biased to boundaries, 0..N entries in each of the four sections incl. a 3^4 section-size grid, RDATA 0..65535 and '
         'beyond, names drawn from a pool so that suffixes repeat, some unrepresentable names); (3) DecodeMessage / DecodeDomainName on '
         'wires produced by an independent compressing serializer (greedy and random admissible pointer placement: whole name, after '
         'literal labels, to a pointer (chain), to a root octet) and by miekg/dns with and without compression; (4) pointers not strictly '
         'backwards (self, forward, into the own name, mutual, hand-built chains and chain loops), arbitrary backward targets, reserved '
         'label bits, every prefix of valid messages, byte flips, random bytes, pointer soup; distinct = distinct input line; non-trivial '
         '= implementation output is a non-empty value. Real-code calls run in worker processes so that a stack overflow or hang is '
         'observed per op.',
 'assumptions': ['offsets passed to DecodeDomainName/DecodeQuestion/DecodeResourceRecord are non-negative (DecodeMessage only passes '
                 'offsets >= 12)',
                 'strings.Split/strings.Join/append/copy and encoding/binary behave as modelled',
                 'the model describes the tree with fixes/C09-authority-additional, C09-encode-name-strict and C09-pointer-to-root applied',
                 'the allocation bound counts bytes of string data (label copies, Join results, concatenations), not slice headers'],
 'trusted': ['github.com/miekg/dns v1.0.14 is used only as a third codec in L2 (oracle for the Lean spec serializer/reader); no theorem '
             'depends on it'],
 'technique': 'Lean 4 proof: functional induction over the well-founded decoder and the RFC 1035 reader, list induction over sections; '
              'hand model tied to the Go code by differential correspondence; RFC 1035 spec (serializer with all admissible pointer '
              'placements + reader) cross-checked against miekg/dns and an independent Go serializer on every run; constants regenerated '
              'from the source on every run by a go/ast fact extractor (Gen/ConstsC09: '
              'MaxLabelLength/MaxDomainLength/HeaderSize/labelPointer and each of their uses, the 0x3FFF pointer mask with its 16-bit '
              'big-endian read, the question and record fixed sizes 4 and 10 with their running offsets, the six header offsets, field '
              'widths, byte order and write order of the encoders) and proved equal to the ones the model uses by rfl/decide (14 theorems '
              'consts_match_model_*)',
 'level_text': 'Proved in Lean for all inputs about a hand-written model of '
               'EncodeDomainName/DecodeDomainName/Message.Encode/DecodeMessage: the encoder emits exactly the uncompressed RFC 1035 '
               'message (encode_eq_spec, encodeName_spec) and nothing else (encodeName_sound); decoding agrees with an independent RFC '
               '1035 reader on every byte string the reader accepts (decode_agrees_with_spec), hence round trip in all four sections '
               "(roundtrip, roundtrip_any_counts), the reader parses the library's output (spec_parses_model), and the library decodes "
               'every admissible serialization with compression pointers at any label boundary incl. chains and pointers to the root '
               '(model_parses_spec, using parse_serialize: the grammar is unambiguous); pointers not strictly backwards are refused '
               '(pointer_must_go_back, pointer_must_go_back_name), termination is the well-founded definition of the decoder, no input '
               'panics (decode_never_panics), and the allocation of a name is bounded explicitly (name_alloc_bound). The model is tied to '
               'the code by running both on the same generated inputs on every run, and the implementation is compared with the Lean RFC '
               '1035 codec and miekg/dns. Constants tie: 14 theorems consts_match_model_* restate the model functions with the numbers '
               'regenerated from the current source (MaxLabelLength/MaxDomainLength/HeaderSize/labelPointer and each of their uses, the '
               '0x3FFF pointer mask with its 16-bit big-endian read, the question and record fixed sizes 4 and 10 with their running '
               'offsets, the six header offsets, field widths, byte order and write order of the encoders) in place of their literals; a '
               'changed constant in the source makes the theorem named after the function fail.',
 'level_note': 'Trusted: Lean kernel; axioms propext, Classical.choice, Quot.sound; the hand model is tied to the Go code by differential '
               'testing and, for the constants covered by consts_match_model_*, by regeneration from the source (control flow: '
               'differential testing only, bounded); Go stdlib semantics as modelled. The theorems are about the repaired code (three fix '
               'patches in fixes/C09-*).'}
