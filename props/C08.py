# configuration of ./check for property C08 (see props_config.py)
CONFIG = {'gen': ['ConstsC08'],
 'rule': 'cases = NEGOTIATE (16 fixed names x 3 workstations x both character sets, random names incl. non-ASCII / astral / invalid UTF-8, '
         'lengths 65534..65536 of the encoded field), AUTHENTICATE (flag grid UNICODE/OEM x ESS x VERSION x target-info lists, random '
         'flags, 64 KiB fields), CHALLENGE (generator-built well-formed messages with random flags, AV-pair lists, filler gaps, checked '
         'against Spec.buildChallenge; every truncation; descriptor len/offset grid incl. offsets that wrap 2^32; corrupted headers; '
         'random bytes), target-info lists (duplicates, empty values, EOL inside, truncations, trailing bytes), SPNEGO (token lengths '
         '0..140, 200..270, 65480..65545, 65536.., nil and empty tokens; NegTokenResp with states/mechanisms incl. rejected OIDs; every '
         'two-byte header 60 xx; truncations; single-byte header corruptions of valid tokens), ProcessChallengeToken end to end; distinct '
         '= distinct input line; non-trivial = implementation output is a non-empty value In the MaxLen variants the BufferOffset of an empty TargetName / TargetInfo is also arbitrary (0, 8, 48, 55).',
 'assumptions': ['strings.ToUpper and utf16.EncodeUTF16LE are arbitrary functions in the theorems; at run time the harness passes the Go '
                 'results as finite tables',
                 'encoding/asn1 Marshal/Unmarshal behave on the six Go types used as modelled (tied on every run, including malformed '
                 'input); asn1 rejects lengths >= 2^31, so the round trip is stated below that',
                 'LM/NT response bytes inside AUTHENTICATE are inputs here (read back from the produced message at the offsets MS-NLMP '
                 'prescribes); their content is property C02',
                 'a nil and an empty Go slice are distinguished only for the SPNEGO token argument'],
 'trusted': ['encoding/asn1 (modelled for the shapes used, tied by L2)', 'crypto/rand, time.Now (values read back from the output)'],
 'technique': 'Lean 4 proofs (list algebra, little-endian arithmetic, induction over AV-pair lists and DER digits) about a hand model; '
              'model tied to the Go code by differential correspondence; MS-NLMP validators / independent builders as spec oracles on the '
              'same inputs; constants regenerated from the source on every run by a go/ast fact extractor (Gen/ConstsC08: the NTLMSSP '
              'signature, message types 1/2/3, the twelve negotiate flags and the flag word of the negotiate message, header sizes 40 and '
              '88 with the write order of every descriptor, the field offsets 8/12/16/20/24/32/40/44/48 and minimum length 56 of the '
              'challenge parser, the AV framing 2+2 and MsvAvEOL, the two length guards 0xFFFF with the fields they range over, the SPNEGO '
              'and NTLM OIDs) and proved equal to the ones the model uses by rfl/decide (12 theorems consts_match_model_*)',
 'level_text': 'negotiate_descriptors and authenticate_descriptors (all strings, both character sets, all flag words, arbitrary '
               'ToUpper/UTF-16 functions, no length hypothesis: either every field is shorter than 64 KiB and the message has signature, '
               'type, Len = MaxLen = |field|, msg[off:off+len] = field, fields consecutive from 40 / 88 to the end, or some field is not '
               'and the builder returns an error — negotiate_refuses_field64k, authenticate_refuses_field64k; never a panic), '
               'parse_build_challenge (every flag word, all contents < 64 KiB, arbitrary filler), parse_build_targetinfo + avMap_sorted + '
               'avMap_lookup (all AV-pair lists, last duplicate wins), der_len_roundtrip (all n < 2^32), wrap_init_eq_spec, '
               'spnego_roundtrip_partial (every non-empty token < 2^31-64), challenge_parse_total, spnego_extract_total are proved in Lean '
               'for all inputs about a hand model of the patched code; one finding is proved as a counterexample (empty token; the 64 KiB '
               'fields are refused since fixes/C08-descriptor-length-guard.diff). Constants tie: 12 theorems consts_match_model_* restate '
               'the model functions with the numbers regenerated from the current source (the NTLMSSP signature, message types 1/2/3, the '
               'twelve negotiate flags and the flag word of the negotiate message, header sizes 40 and 88 with the write order of every '
               'descriptor, the field offsets 8/12/16/20/24/32/40/44/48 and minimum length 56 of the challenge parser, the AV framing 2+2 '
               'and MsvAvEOL, the length guards 0xFFFF of the two builders and the five fields the AUTHENTICATE guard ranges over, the '
               'SPNEGO and NTLM OIDs) in place of their literals; a changed constant in the source makes the theorem named after the '
               'function fail.',
 'level_note': 'Trusted: Lean kernel; axioms propext, Classical.choice, Quot.sound; the hand model is tied to the Go code by differential '
               'testing and, for the constants covered by consts_match_model_*, by regeneration from the source (control flow: '
               'differential testing only, bounded); encoding/asn1 semantics as modelled; ToUpper/UTF-16 as parameters.'}
