# configuration of ./check for property C18 (see props_config.py)
CONFIG = {'gen': ['NbnsDispatch', 'ServerFacts', 'ServerFacts2'],
 'rule': 'cases = (a) c18.dispatch: one request per case to a fresh NBNS server on a loopback socket (standalone Server / UDPServer / '
         'TCPServer), all 16 opcodes x each server x 20 (quick) / 120 (thorough) settings of the other 12 flag bits (none, R, group, '
         'broadcast, all, random) x three prepared tables x question/record present or absent; the observable outcome (response id, flags, '
         'QDCOUNT, answer records, QueryName of both names afterwards) is compared with the Lean model of handlePacket over the generated '
         'mask/case constants (tie) and with the RFC 1002 routing (property); (b) c18.sock: ten socket scenarios per run in a child '
         'process built with -race: isolation (4/32 concurrent clients x 50/2000 pipelined queries with distinct ids and names against '
         'each NBNS server kind and the LLMNR server: every response received must carry the id of an outstanding request of that client '
         'and the answer for that request), LLMNR client routing (shuffled responses, non-responses and unknown ids against registered '
         'query channels, and Client.Query itself), Stop/Close at 10/200 random moments under traffic for the five loops (returns within a '
         '60 s watchdog, second call does not panic, goroutine count returns to the baseline within 30 s); distinct = distinct input line; '
         'non-trivial = implementation output is a non-empty value LLMNR client routing: a third of the waiting ids are answered two to '
         'four times; if any waiter gets nothing, five further single responses to fresh ids must be delivered (liveness of the read '
         'loop); the stop scenario of the client includes an id that is answered continuously and never collected. Half of the LLMNR '
         'server scenarios (all stop scenarios) run with the HandlerDescribePacket of the library (which logs under logger.Lock) ahead of '
         'the answering handler and with debug mode on. In the LLMNR scenarios a catch-all handler is registered behind the answering '
         'handler (which returns false): it must never run, a second response to an id is a violation.',
 'assumptions': ["a handler goroutine's bytes are either a window of the loop buffer or its own copy, and the copy is taken in the loop "
                 'body before the `go` statement: extracted facts ServerFacts (taint of the `go` arguments and of what a `go func` literal '
                 'captures, from buffers made outside the loop; llmnr.DecodeMessage accepted as non-retaining by a syntactic check of '
                 'every use of its parameter) and ServerFacts2.spawns.copyPlace',
                 'Close of a socket / connection makes a blocked Read/Accept return an error (contract of package net) - the hypothesis '
                 '`Consistent` of stop_terminates and the read clause of `TValid` in stop_closes_every_connection',
                 'the remote endpoint is unique among the live connections accepted by one listener (TCP identifies a connection by its '
                 "two endpoints; the local one is the listener's) - the key clause of `TValid`; the extracted fact is that the registry "
                 'key is `conn.RemoteAddr().String()` of the stored connection, stored and deleted under the same expression',
                 'sync.WaitGroup: Wait returns iff the counter is zero; an Add from zero while a Wait is in progress and a Done below zero '
                 'are misuse (package documentation) - the model `wgstep`; Stop is called after Start has returned (the Add of Start '
                 'precedes every Wait); sync.Map Range visits every entry stored before it starts (modelled as one atomic step); '
                 'sync.Mutex.Lock proceeds iff nobody holds the mutex, the caller included (`lenabled`)',
                 'a 1-buffered channel accepts one message without a receiver; Query receives from its channel at most once (its select '
                 'returns) and deregisters afterwards - the model `cstep`',
                 'functions of the standard library called while logger.Lock() is held (fmt, net) do not call back into package logger',
                 'NBNS packet encoding/decoding (Marshal/Unmarshal, C10) is outside this model: requests are given to the model as parsed '
                 'fields',
                 'lost datagrams and slow responses are counted in the evidence and never reported; the only time bounds are 60 s '
                 'watchdogs on Stop/Serve returning and 30 s for goroutines to settle',
                 'race detector: built on the fly with `go build -race` (cgo/gcc available offline here); '
                 'evidence.extra.sockets.race_build says whether it was used'],
 'trusted': ['package net, sync.Once, sync.WaitGroup, sync.Map, sync.Mutex, channels, Go scheduler (modelled by their enabling conditions, '
             'see assumptions)',
             'Go race detector (finds races on executed schedules; does not exclude them)'],
 'technique': 'Lean 4 proof: bit-vector case analysis over all 16-bit flag words on constants regenerated from the source; induction over '
              'arbitrary schedules of an interleaving model, of a shutdown transition system and of five small mechanism models (channel '
              'hand-off, connection registry, WaitGroup, copy placement, non-reentrant mutex), each with a witness schedule for the broken '
              "mechanism; the mechanisms' parameters are extracted facts decided by the kernel; handler model tied to the servers by "
              'differential correspondence over loopback sockets; concurrent behaviour observed under the race detector',
 'level_text': "Theorems opcode_dispatch (all 65 536 flag words x 3 servers: the code's switch selects the RFC 1002 handler of bits "
               '11..14), query_guard_exact, handle_eq_spec, response_carries_request_id, response_answers_the_request, response_header, '
               'handlers_short_circuit, route_matching_id / route_delivers / route_leaves_others (LLMNR client), isolated_if_copied / '
               'isolated_ids / one_response_per_request (every schedule of the receive-loop model) with shared_view_leaks (existence of a '
               'leaking schedule when the buffer is shared) and no_loop_shares_its_buffer (extracted), stop_terminates, '
               'stop_twice_panics_without_once, stop_any_number_of_times_with_once, stops_close_once_and_unblock (extracted) are proved in '
               'Lean. Mechanisms of the stop / isolation clauses, each as fact + theorem + witness (Model/C18Stop.lean, '
               'Gen/ServerFacts2.lean): readloop_never_blocks / blocking_handoff_wedges / handoff_is_nonblocking (the hand-off of the '
               'LLMNR client is a select with default), stop_closes_every_connection / constant_key_leaves_connection_open / '
               'registry_key_is_peer_address (TCP connection registry keyed per live connection), waitgroup_discipline_sound / '
               'add_inside_goroutine_races / done_not_deferred_blocks_wait / waitgroup_discipline_holds (Add before go under a held count, '
               'Done deferred first, Wait after close), isolated_if_copied_before_go / copy_inside_goroutine_leaks / copy_taken_before_go, '
               'no_deadlock_without_reentry / reentrant_lock_deadlocks / held_program_well_nested_iff / '
               'logger_calls_under_lock_do_not_reacquire (nothing called under logger.Lock() takes LoggerLock). The handler model is tied '
               'to the real servers by running both on the same requests over loopback sockets on every run.',
 'level_note': 'PARTIAL for the runtime clauses: goroutine scheduling, absence of data races, prompt exit and absence of leaked goroutines '
               'are OBSERVED by the harness (loopback sockets, race detector, goroutine counts) and PROVED only of the interleaving / '
               'transition-system models; the link between those models and the code is the extracted facts (go-statement arguments and '
               'captures, copy placement, sync.Once around close, select on the quit channel, select-with-default around the channel send, '
               'registry key expression and Range-close in Stop, Add/Done/Wait placement, the call graph under logger.Lock()) plus that '
               'observation, not a translation. Proof level for dispatch, response contents and client routing (hand model + Gen constants '
               '+ differential tie). Trusted: Lean kernel; axioms propext, Classical.choice, Quot.sound; extractors '
               'tools/extract/nbns_dispatch.go, server_facts.go and server_facts2.go; package net; the race detector.'}
