# configuration of ./check for property C16 (see props_config.py)
CONFIG = {'gen': [],
 'rule': 'cases = binary SIDs (every count 0..15 x boundary authorities exhaustively, then random counts/values, truncations, oversized '
         'counts, wrong revisions, trailing bytes, random bytes) and distinguished names (random RDN sequences in AD text form with '
         "escaped specials incl. '\\,DC=' inside values, plus raw text); distinct = distinct input line; non-trivial = implementation "
         'output is a non-empty value',
 'assumptions': ['fmt %d and strings.Join/Split/HasPrefix/TrimPrefix/TrimSuffix behave as modelled',
                 "Lean's Nat.repr is taken as the definition of decimal notation"],
 'trusted': [],
 'technique': 'Lean 4 proof (induction over the sub-authority list / RDN list) about a hand model; model tied to the Go code by '
              'differential correspondence; spec oracle on the same inputs',
 'level_text': 'Theorems sid_string_spec (all authorities < 2^48, all sub-authority lists up to 255, all trailing bytes), sid_total (no '
               'input panics), sid_short_or_wrong_revision_is_empty and dn_domain_spec (all RDN sequences in AD text form) are proved in '
               'Lean for all inputs about a hand-written model of ParseSIDFromBytes and GetDomainFromDistinguishedName; the model is tied '
               'to the code by running both on the same generated inputs on every run, and the implementation is compared with an '
               'independent MS-DTYP reading of the same bytes.',
 'level_note': 'Trusted: Lean kernel; axioms propext, Classical.choice, Quot.sound; the hand model is tied to the Go code only by '
               'differential testing (bounded); fmt/strings stdlib semantics as modelled; Nat.repr as decimal notation.'}
