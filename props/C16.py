# configuration of ./check for property C16 (see props_config.py)
CONFIG = {'gen': ['ConstsC16'],
 'rule': 'cases = binary SIDs (every count 0..15 x boundary authorities exhaustively, then random counts/values, truncations, oversized '
         'counts, wrong revisions, trailing bytes, random bytes) and distinguished names (random RDN sequences in AD text form with '
         "escaped specials incl. '\\,DC=' inside values, plus raw text); distinct = distinct input line; non-trivial = implementation "
         'output is a non-empty value DN values also consist of whole multi-byte characters and of format verbs.',
 'assumptions': ['fmt %d and strings.Join/Split/HasPrefix/TrimPrefix/TrimSuffix behave as modelled',
                 "Lean's Nat.repr is taken as the definition of decimal notation"],
 'trusted': [],
 'technique': 'Lean 4 proof (induction over the sub-authority list / RDN list) about a hand model; model tied to the Go code by '
              'differential correspondence; spec oracle on the same inputs; constants regenerated from the source on every run by a go/ast '
              'fact extractor (Gen/ConstsC16: revision value and index, count index, the six authority byte positions and shifts, the 8+4k '
              'sub-authority bound and offsets with their byte order, format strings, DN escape/separator/DC= prefix/dot) and proved equal '
              'to the ones the model uses by rfl/decide (9 theorems consts_match_model_*)',
 'level_text': 'Theorems sid_string_spec (all authorities < 2^48, all sub-authority lists up to 255, all trailing bytes), sid_total (no '
               'input panics), sid_short_or_wrong_revision_is_empty and dn_domain_spec (all RDN sequences in AD text form) are proved in '
               'Lean for all inputs about a hand-written model of ParseSIDFromBytes and GetDomainFromDistinguishedName; the model is tied '
               'to the code by running both on the same generated inputs on every run, and the implementation is compared with an '
               'independent MS-DTYP reading of the same bytes. Constants tie: 9 theorems consts_match_model_* restate the model functions '
               'with the numbers regenerated from the current source (revision value and index, count index, the six authority byte '
               'positions and shifts, the 8+4k sub-authority bound and offsets with their byte order, format strings, DN '
               'escape/separator/DC= prefix/dot) in place of their literals; a changed constant in the source makes the theorem named '
               'after the function fail.',
 'level_note': 'Trusted: Lean kernel; axioms propext, Classical.choice, Quot.sound; the hand model is tied to the Go code by differential '
               'testing and, for the constants covered by consts_match_model_*, by regeneration from the source (control flow: '
               'differential testing only, bounded); fmt/strings stdlib semantics as modelled; Nat.repr as decimal notation.'}
