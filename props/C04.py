# configuration of ./check for property C04 (see props_config.py)
CONFIG = {'gen': ['SmbCommands'],
 'drivers': ['Smb', 'SmbDialects'],
 'rule': 'cases = for each of the 114 command structures reachable from the request/response factories: field assignments generated from '
         'the extracted programs (length/count fields made to agree with their buffers; boundary-biased integers; byte-distinct values; '
         'nested values in their domain; every buffer format where Marshal sets none; for AndX commands an AndX block set through SetAndX '
         'in two cases of three) -> marshal, unmarshal into a fresh command, compare every field and the AndX block, re-marshal, compare '
         'bytes (smb.rt; one case in four decodes into a receiver that holds the field values of another generated message: nothing of it '
         'may survive); complement one fixed-width field and compare the changed byte range with its slot (smb.slot); unconstrained '
         'assignments (tie only). distinct = distinct line; non-trivial = the implementation produced a value In half of the smb.rt cases '
         'the bytes are decoded twice into the same command object (the second decode must show the second message only). smb.dialects: '
         'the Dialects list as a value of its own (identifiers with high bytes; half of the decodes into a used value): Marshal, '
         'Unmarshal, compare with one 02 name 00 per identifier. In half of the encodings the byte-string fields of the structure are '
         'windows of ONE backing array (each with the capacity left behind it, in an order other than the append order), as Unmarshal '
         'hands them out.',
 'assumptions': ['reflect-based field assignment in the harness sets exactly the exported fields of the command structure',
                 "the factories' constructors (New…() + Init()) give the initial field values passed to the model as env0"],
 'trusted': ['tools/extract/smb_commands.go (statement-by-statement translation of the 115 Marshal/Unmarshal bodies into the command IR; '
             'aborts on unknown shapes; its output is tied to the real code on every run)',
             'Go slice semantics incl. capacity of Data.Bytes and of the stream built by GetBytesStream (runtime growth policy 8,16,…,512) '
             'as modelled in SmbIR/SmbCmd',
             'nested wire types through the C06 models (Manticore/Model/C06.lean, SmbCodecs adapters)'],
 'technique': 'Lean 4: generic round-trip theorem over the command IR (induction over programs) + kernel-decided static predicates '
              '(Mirror, MirrorLoops, known-finding classification) over marshal/unmarshal programs regenerated from /repo on every run by '
              'a go/ast translator; executable IR semantics tied to the Go code by differential correspondence on all 114 commands; '
              'round-trip oracle on the same inputs',
 'level_text': 'The Marshal and Unmarshal bodies of all 115 command structures are re-translated from /repo into a small imperative IR on '
               'every run; the kernel decides (decide +kernel) that exactly 96 structures satisfy Mirror (same slots, order, widths, byte '
               'order, length dependencies; no field changed after it is emitted; offset reset between blocks; lengths read before their '
               'buffers; guards no larger than the reads they protect; every declared field on the wire; for the AndX commands the AndX '
               'block read from the head of the parameter stream and exactly its four bytes cut off before the first field: andx_consumed) '
               'and that the structural round-trip defects are exactly the 2 recorded ones (non_mirror_commands, known_roundtrip_findings, '
               'command_count; fourteen more were repaired in the repository, fixes/C04-*.diff, and left the list). A nested value decoded '
               'from the whole block right behind offset = 0 is read in the normal form blk[offset:] (normWhole; go_normWhole: the run is '
               'the same). The generic soundness theorem is proved for all field values: mirror_roundtrip (Mirror c -> LawfulCodecs C T -> '
               'consistent C c v -> decodeCmd (encodeCmd v) = ok d with every declared field, and the AndX block of an AndX command, equal '
               'to the sender after Marshal), with its layers marshal_is_layout / unmarshal_reads_layout, the re-encoding corollary '
               'mirror_reencode, slot_locality, the instance std_lawful for the C06 models, and smb_roundtrip / smb_reencode for the 96 '
               'regenerated Mirror commands (10 of the 16 AndX commands). The IR semantics (runM/runU/encodeCmd/decodeCmd) is executed by '
               'the driver on the same field assignments as the real code for all 114 factory-reachable commands, and the real code is '
               'compared with the round-trip specification (decode(encode v) = v, re-encode identical, slot locality) on internally '
               'consistent assignments. The loop fragment (MirrorLoops: matching loop pairs over list fields — range loop against a loop '
               'counted by a field read before it or running over a fixed array —, one optional trailing parameter integer or array of '
               "integers, reset by Unmarshal and then read under 'WordCount tells which', padding arithmetic on lengths already read, a "
               'last read without advance) is proved the same way: mirror_loops_roundtrip, mirror_loops_reencode (codec laws on the '
               "element types too; consistent asks list elements to be fixed points of their Marshal; receiverFits: the receiver's fixed "
               "arrays have the sender's length — nothing is asked about optional fields any more: optional_stale_reset, the former "
               'optional_stale_counterexample), smb_loops_roundtrip / smb_loops_reencode for the 110 regenerated MirrorLoops commands, all '
               '16 AndX commands among them (loop_mirror_commands: LockAndReadResponse, LockingAndxRequest, OpenAndxRequest, '
               "OpenAndxResponse, QueryInformationResponse, ReadRawRequest, RenameRequest — a nested read through a window of the type's "
               'fixed size whose error and count are dropped, offset moved by the window; rename_request_unchecked_decode_total: that '
               'decode cannot fail —, SessionSetupAndxRequest, SessionSetupAndxResponse, TransactionRequest, WriteAndCloseRequest, '
               'WriteAndxRequest, WriteMpxRequest, WriteRawRequest; mirror_loops_extends; mirror_loops_types_lawful). For the 5 commands '
               'outside (non_mirror_loops_commands: FindResponse / FindUniqueResponse with the recorded 43-byte window, NegotiateRequest — '
               'Dialects reads to the end of its input; proved for this one program with the statement of mirror_loops_roundtrip: '
               'negotiate_request_roundtrip, Props/C04/Direct.lean —, NegotiateResponse — null-terminated strings —, WriteRequest — '
               'repaired: Marshal put the marshalled Data ahead of the parameter block, which consistent used to hide by asking that '
               'nothing precede it (fixes/C04-writerequest-data-block.diff); Unmarshal decodes Data with error and count dropped behind a '
               'guard the type does not size; proved for this one program: write_request_roundtrip —) only NegotiateResponse and the two '
               'recorded findings rest on the correspondence runs alone. slot_locality reads the layout through layoutZ (literal '
               'terminator bytes in the data block passed over, a range loop over an integer array one slot of variable width), 228 '
               'command/field pairs.',
 'level_note': 'Trusted: Lean kernel; axioms propext, Classical.choice, Quot.sound; the extractor and the IR semantics are tied to the Go '
               'code by differential testing (bounded); C06 models of nested types; known findings are recognised by Lean predicates on '
               'the extracted programs, one key per command.'}
