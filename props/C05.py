# configuration of ./check for property C05 (see props_config.py)
CONFIG = {'gen': ['SmbCommands'],
 'drivers': ['Smb'],
 'rule': 'cases = for each of the 114 factory-reachable command structures: field assignments with pairwise distinct bytes in every '
         'integer (so byte order is observable) and boundary-biased random ones -> the bytes the real Marshal emits vs the bytes of the '
         'MS-CIFS encoder written in Lean from the declared field list (Spec/Cifs.lean). distinct = distinct line; non-trivial = the '
         'implementation produced bytes',
 'assumptions': ['the declared Go field types are taken as the transcription of MS-CIFS (the MS-CIFS PDF in the repository is empty in '
                 'this sandbox)',
                 'which declared fields live in the parameter block and which in the data block is read off the extracted marshal program'],
 'trusted': ['tools/extract/smb_commands.go (statement-by-statement translation of the 115 Marshal/Unmarshal bodies into the command IR; '
             'aborts on unknown shapes; its output is tied to the real code on every run)',
             'Go slice semantics incl. capacity of Data.Bytes and of the stream built by GetBytesStream (runtime growth policy 8,16,…,512) '
             'as modelled in SmbIR/SmbCmd',
             'nested wire types through the C06 models (Manticore/Model/C06.lean, SmbCodecs adapters)'],
 'technique': 'Lean 4: kernel-decided Conforms predicate (little-endian, declared widths, declaration order) over marshal programs '
              'regenerated from /repo on every run; MS-CIFS encoder written in Lean as the oracle; differential correspondence on all 114 '
              'commands',
 'level_text': 'The kernel decides on the regenerated marshal programs that every integer emission of every command structure is '
               'little-endian and exactly as wide as its declared type and that fields are emitted in declaration order, parameters before '
               'data, with WriteRequest the only exception (non_conforming_commands); the AndX default block and the dialect list encoding '
               'equal the specification for all inputs (andx_default_block, dialects_eq_spec). On every run the bytes emitted by the real '
               'code are compared with an independent MS-CIFS encoder (Spec.Cifs.encode) on byte-distinct values for all 114 commands. '
               "Recorded findings: SMB_FILE_ATTRIBUTES is big-endian (pinned by the repository's own tests), buffer format 0x03 carries a "
               'length word.',
 'level_note': 'Trusted: Lean kernel; axioms propext, Classical.choice, Quot.sound; extractor and IR semantics tied by differential '
               'testing (bounded); the MS-CIFS reading in Spec/Cifs.lean is hand-written from the rules of the specification; declared '
               'field types taken as given.'}
