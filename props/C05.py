# configuration of ./check for property C05 (see props_config.py)
CONFIG = {'gen': ['SmbCommands'],
 'drivers': ['Smb', 'SmbDialects', 'SmbHdrSf'],
 'rule': 'cases = for each of the 114 factory-reachable command structures: field assignments with pairwise distinct bytes in every '
         'integer (so byte order is observable) and boundary-biased random ones, AndX commands with an AndX block set through SetAndX in '
         'two cases of three -> the bytes the real Marshal emits vs the bytes of the MS-CIFS encoder written in Lean from the declared '
         'field list (Spec/Cifs.lean). distinct = distinct line; non-trivial = the implementation produced bytes Header: smb.hdr = '
         'Header.Marshal on explicit values of every header field (boundary-biased, byte-distinct) against the 32-byte MS-CIFS 2.2.3.1 '
         'layout written in the specification.',
 'assumptions': ['the declared Go field types are taken as the transcription of MS-CIFS (the MS-CIFS PDF in the repository is empty in '
                 'this sandbox)',
                 'which declared fields live in the parameter block and which in the data block is read off the extracted marshal program'],
 'trusted': ['tools/extract/smb_commands.go (statement-by-statement translation of the 115 Marshal/Unmarshal bodies into the command IR; '
             'aborts on unknown shapes; its output is tied to the real code on every run)',
             'Go slice semantics incl. capacity of Data.Bytes and of the stream built by GetBytesStream (runtime growth policy 8,16,…,512) '
             'as modelled in SmbIR/SmbCmd',
             'nested wire types through the C06 models (Manticore/Model/C06.lean, SmbCodecs adapters)'],
 'technique': 'Lean 4: static predicate Conforms on marshal programs (little-endian, declared widths, raw/nested emissions of the declared '
              'kind, per-block declaration order, no assignment after emission, no declared field dropped), decided by the kernel on the '
              'programs regenerated from /repo on every run, and proved sound for all field values against the MS-CIFS encoder written in '
              'Lean (induction over the statement list); the same for programs with loops over list fields (ConformsLists vs '
              'Spec.Cifs.encodeLists) and with one optional parameter field (ConformsOptional vs Spec.Cifs.encodeOptional); nested wire '
              'types proved conforming or refuted one by one; differential correspondence on all 114 commands',
 'level_text': 'For all field values and every command whose regenerated marshal program passes the static predicate Conforms, the bytes '
               'Marshal emits are the bytes of an independent MS-CIFS encoder written from the declared field list whenever that encoder '
               "speaks (conforms_sound; conforms_sound_at / conforms_sound_std for the library's own nested encoders outside the three "
               'recorded findings; param_block_eq_spec, data_block_eq_spec for WordCount/Words/ByteCount(LE)/Bytes; andx_default_block, '
               'andx_block_eq_spec for the AndX block: command, reserved, offset as MS-CIFS has them unless the two bytes of the offset '
               'differ — the offset goes out big-endian, finding be:AndXOffset, andx_offset_big_endian_counterexample, '
               'andx_offset_differs_iff). The kernel decides Conforms on the 115 regenerated programs: all conform '
               '(non_conforming_commands, core_non_conforming_commands are empty: WriteRequest, which put its data buffer ahead of the '
               'parameter block, was repaired, fixes/C04-writerequest-data-block.diff, and is covered by conforms_sound); no structure '
               'drops a declared field any more (commands_dropping_fields = []: the six that did were repaired in the repository, '
               'fixes/C04-*.diff); of the thirteen programs with loops, conditional fields or literal bytes '
               '(commands_outside_straight_line) eight pass ConformsLists (lists_conforming_commands: FindResponse, FindUniqueResponse, '
               'LockAndReadResponse, LockingAndxRequest, OpenAndxRequest, OpenAndxResponse, QueryInformationResponse, TransactionRequest) '
               'and four ConformsOptional (optional_conforming_commands: ReadRawRequest, WriteAndCloseRequest, WriteAndxRequest, '
               'WriteRawRequest), for which conforms_lists_sound / conforms_optional_sound (+ _at, _std; conforms_ext_shapes; '
               'std_nested_list_conforms, list_element_types) prove, for all field values, that the emitted bytes are those of '
               "Spec.Cifs.encodeLists (an array is the concatenation of its elements' encodings) / Spec.Cifs.encodeOptional (short form "
               'for a zero field, long form otherwise); NegotiateResponse (the literal two-byte terminators of its two null-terminated '
               'strings, of which the encoders over the declared field list have no notion) stays outside '
               '(commands_outside_proved_fragments) and is covered by the differential run only. Nested types: FILETIME, SMB_TIME, '
               'SMB_DATE, SMB_NMPIPE_STATUS, LOCKING_ANDX_RANGE64, OEM_STRING and the dialect list conform for all values '
               '(std_nested_conforms, dialects_eq_spec), SMB_STRING for formats 1, 2, 4, 5 (smb_string_conforms); SMB_FILE_ATTRIBUTES is '
               'big-endian and SMB_STRING format 0x03 carries a length word (file_attributes_big_endian_counterexample, '
               'smb_string_format3_counterexample, smb_string_format3_never_conforms). On every run the bytes emitted by the real code are '
               'compared with Spec.Cifs.encode / encodeLists / encodeOptional on byte-distinct values for all 114 commands.',
 'level_note': 'Trusted: Lean kernel; axioms propext, Classical.choice, Quot.sound; extractor and IR semantics tied by differential '
               'testing (bounded); the MS-CIFS reading in Spec/Cifs.lean is hand-written from the rules of the specification (it places '
               'only the declared fields that some statement emits, which is why dropped fields are reported by Conforms and not by the '
               'byte comparison); declared field types taken as given.'}
