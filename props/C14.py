# configuration of ./check for property C14 (see props_config.py)
CONFIG = {'gen': ['ConstsC14'],
 'rule': 'cases = (a) whole credentials: NewKeyCredential -> ToBytes -> CheckIntegrity -> FromBytes -> CheckIntegrity -> ToBytes for '
         'moduli of 1..256 random bytes and products of two real primes (64/512/1024 bits; thorough: 2048/3072/4096), with and without '
         'prime entries, exponents 3/65537/near 2^32/random, versions 0/0x100/0x200 and random values, identifiers = ComputeKeyIdentifier '
         'or canonical text of 0..64-byte binary identifiers, random GUIDs, boundary and random ticks (0, 1, 2^63-1, 2^64-1); compared '
         'with the MS-ADTS blob written by the Lean specification; (b) every single-bit corruption of serialised blobs (6 tiny + 9 '
         "real-key blobs quick, 48 + 18 thorough), verdict compared with 'rejected' inside the KeyHash value and the entries it covers; "
         '(c) FromBytes on serialised, truncated, byte-corrupted, bit-flipped and synthetic entry sequences (all fields, internals, '
         'recomputed hash, verdict, re-serialisation: model tie); (d) parts: identifiers hex/base64 both directions incl. '
         'padding/whitespace/wrong alphabet, RSAKeyMaterial layout/round trip/every truncation/size-field corruption, CustomKeyInformation '
         "of every length 0..26, version, DN-with-binary format/parse/round trip with ':' ',' '=' non-ASCII and invalid UTF-8 and damaged "
         'size/hex parts; distinct = distinct input line; non-trivial = implementation output is a non-empty value In half of the '
         'single-bit corruption cases the parser object has already parsed the genuine blob and computed/checked its hash before it parses '
         'the corrupted one. After ToBytes the blob is held while another credential of the same shape is built and serialised; it must still read as returned. (Engine-wide: every byte slice printed through okHex is held across later ops and must not change.) The serialised blob is also parsed through KeyCredential.ParseDNWithBinary and must give the same fields and re-serialisation. DN alphabets include format verbs (%, %s, %%).',
 'assumptions': ['SHA-256 is an arbitrary function H in every theorem; the round-trip clauses assume only that digests are 32 bytes; '
                 "'tampering detected' is proved as: an accepted alteration exhibits a collision of H, or a message containing its own "
                 'digest',
                 'encoding/hex, encoding/base64, strconv.Atoi, fmt %d/%s, bytes.SplitN, strings.TrimRight, encoding/binary behave as '
                 "modelled (Lean hex/base64 are compared with Go's on every run)",
                 'slices handed to FromBytes have capacity = length; Go slice lengths fit an int; int is 64 bits',
                 'timestamps are raw 64-bit tick counts (tick <-> time.Time is C15); a GUID is a 128-bit value (E < 2^48); identifier, key '
                 'material and hash fit a 16-bit entry length (Fits)'],
 'trusted': ['Go crypto/sha256 (evaluates H for the driver through the table argument; never re-implemented)'],
 'technique': 'Lean 4 proof (induction over byte lists and over the entry walk; kernel-only bit extensionality for the fixed-width fields) '
              'about a hand model of the patched code; model tied to the Go code by differential correspondence on every field; MS-ADTS '
              'grammar as spec oracle on the same inputs; constants regenerated from the source on every run by a go/ast fact extractor '
              '(Gen/ConstsC14: entry type codes 1..9, version constants 0/0x100/0x200, the RSA1 magic and 24-byte header offsets, exponent '
              'width and shift, the CustomKeyInformation ladder 2/3/4/5/9/19 with its field positions, the 4-byte version and 3-byte entry '
              'header, minimum entry lengths 16/8/8) and proved equal to the ones the model uses by rfl/decide (10 theorems '
              'consts_match_model_*)',
 'level_text': 'Theorems serialise_is_msadts_grammar, blob_roundtrip, reserialise_same_bytes, fresh_passes_integrity (all versions, '
               'identifiers, moduli, exponents, prime lengths, GUIDs and ticks within Fits; H arbitrary with 32-byte digests), '
               'tamper_detected_or_collision, tamper_detected_or_collision_or_selfcontained, '
               'bitflip_detected_or_collision_or_selfcontained, keyhash_value_tamper_detected (H arbitrary), dn_binary_roundtrip (every DN '
               'byte string), identifier_roundtrip, rsa_material_roundtrip, cki_ladders_agree, guid_roundtrip are proved in Lean for all '
               'inputs about a hand-written model of the key-credential code with fixes/C14-*.diff and fixes/C07-*.diff applied; with the '
               'C07 repairs no decoder of the model can panic (parse_total, integrity_total, new_total), so the tampering clause holds at '
               'full strength: bitflip_rejected_or_collision (every single-bit corruption of the covered entries makes FromBytes return an '
               'error or CheckIntegrity return false, or exhibits a collision / self-containing digest of H); parse_rejects_* are the '
               'former crash inputs, now errors; the model is tied to the code by running both on the same generated inputs on every run. '
               'Constants tie: 10 theorems consts_match_model_* restate the model functions with the numbers regenerated from the current '
               'source (entry type codes 1..9, version constants 0/0x100/0x200, the RSA1 magic and 24-byte header offsets, exponent width '
               'and shift, the CustomKeyInformation ladder 2/3/4/5/9/19 with its field positions, the 4-byte version and 3-byte entry '
               'header, minimum entry lengths 16/8/8) in place of their literals; a changed constant in the source makes the theorem named '
               'after the function fail.',
 'level_note': 'Trusted: Lean kernel; axioms propext, Classical.choice, Quot.sound; the hand model is tied to the Go code by differential '
               'testing and, for the constants covered by consts_match_model_*, by regeneration from the source (control flow: '
               'differential testing only, bounded); stdlib semantics as modelled; SHA-256 idealised as an arbitrary function (collision / '
               "self-containing-digest resistance is what 'detects tampering' reduces to)."}
