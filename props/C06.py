# configuration of ./check for property C06 (see props_config.py)
CONFIG = {'gen': ['ConstsC06'],
 'rule': 'cases = per wire type (SMB_STRING x5 formats, OEM_STRING, SMB_DATE, FILETIME, RANGE32/64, SMB_NMPIPE_STATUS, SMB_RESUME_KEY, '
         'SMB_DIRECTORY_INFORMATION, SMB_FILE_ATTRIBUTES, AndX, Parameters, Data, Version): enc = Marshal of a value (bytes + receiver '
         'after the call); rt = Unmarshal(Marshal(v) || suffix) into a fresh receiver (fields, n, len); dec = Unmarshal of raw bytes '
         '(every prefix of valid encodings, corruptions, every format byte, random bytes). Values: string lengths 0..300 (thorough '
         '0..1100) and 4096/65533/65535/65536 in every format, packed dates and pipe-status words on a grid (thorough: all 65536 each), '
         'every WordCount 0..255, data lengths around 255/256/65535, out-of-domain values (embedded NUL, counts out of step, long names); '
         'buffers have cap == len; distinct = distinct input line; non-trivial = implementation output is a non-empty value Half of the '
         'decodes (chosen by the input bytes) go into a receiver that has already decoded other bytes, successfully or not.',
 'assumptions': ['encoding/binary Put/Uint16/32, append, copy and slice-bounds checks behave as modelled',
                 'Unmarshal is run on a fresh receiver (every decoder overwrites all fields on success)',
                 'integer endianness is taken from the code (SMB_FILE_ATTRIBUTES, AndXOffset, parameter words big-endian): conformance is '
                 'C05'],
 'trusted': [],
 'technique': 'Lean 4 proof (list induction, bit-extensionality for the packed words) about hand models of the 14 Marshal/Unmarshal pairs; '
              'models tied to the Go code by differential correspondence; round-trip oracle on the same inputs; constants regenerated from '
              'the source on every run by a go/ast fact extractor (Gen/ConstsC06: SMB_DATE base year 1980, shifts 9/5 and masks, '
              'SMB_STRING format codes 1..5 with the offsets 1/3 and extras of each Unmarshal case and the append order of each Marshal '
              'case, resume key 21 = 1+16+4, directory information windows 2/4/14 and the 12-byte name padding, RANGE32 and FILETIME '
              'offsets, byte orders) and proved equal to the ones the model uses by rfl/decide (21 theorems consts_match_model_*)',
 'level_text': 'For each of the 14 wire types the theorem <Type>.rt is proved in Lean for all values of an explicit decidable domain and '
               'all trailing suffixes: Marshal succeeds, emits wireSize bytes, and Unmarshal(bytes ++ suffix) returns the same field '
               'values and exactly wireSize (SMB_RESUME_KEY / SMB_DIRECTORY_INFORMATION also from any receiver state, modulo the space '
               'padding Marshal applies: rt_norm). smb_date_all_words and pipe_status_all_words cover all 65536 words by '
               'bit-extensionality. SMB_NMPIPE_STATUS is proved only for the empty suffix (rt_partial) with the negation at a witness '
               '(finding nmpipe_trailing: the suite pins the len != 2 test). The models are of the code with fixes/C06-*.diff applied and '
               'are tied to it by running both on the same generated inputs on every run. Constants tie: 21 theorems consts_match_model_* '
               'restate the model functions with the numbers regenerated from the current source (SMB_DATE base year 1980, shifts 9/5 and '
               'masks, SMB_STRING format codes 1..5 with the offsets 1/3 and extras of each Unmarshal case and the append order of each '
               'Marshal case, resume key 21 = 1+16+4, directory information windows 2/4/14 and the 12-byte name padding, RANGE32 and '
               'FILETIME offsets, byte orders) in place of their literals; a changed constant in the source makes the theorem named after '
               'the function fail.',
 'level_note': 'Trusted: Lean kernel; axioms propext, Classical.choice, Quot.sound; the hand models are tied to the Go code only by '
               'differential testing (bounded); encoding/binary and slice semantics as modelled. Wire endianness is not judged here (C05).'}
