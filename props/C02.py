# configuration of ./check for property C02 (see props_config.py)
CONFIG = {'gen': ['ConstsC02'],
 'rule': 'cases = ParityBit 0..599 and large ints; ParityAdjust / createDesKey on every 7-bit group value in each of the 8 group positions '
         'over two backgrounds, random 7-byte keys, other key lengths; NTLMv1 through all entry points (password constructor: '
         'Hash/String/NTResponse/LMResponse; hash constructor; ntlm.desEncrypt and calculateNTLMv1Response via hooks) with passwords in '
         'several scripts and challenges covering every byte value, hashes and challenges of other lengths; NTLMv2 '
         'key/Hash/ToHashcatString over a domain x user case grid (upper, lower, mixed, non-ASCII with special case mappings), random '
         'credentials, 64 KiB domains; ntlm.go ntowfv2 / createNTLMv2Blob / calculateNTLMv2Proof / calculateNTLMv2Response via hooks with '
         'AV-list, empty and random target info; the LM/NT payloads inside CreateAuthenticateMessage for both NTLMv1 and NTLMv2 flag sets; '
         'distinct = distinct input line; non-trivial = implementation output is a non-empty value NTLMv2 objects are built either by '
         'NewNTLMv2 directly or, in a third of the cases, by NewNTLMv2 for another credential with every field assigned afterwards (object '
         'history: results must depend on the current fields only). Target information of 440..60000 bytes and blobs of 500..65000 bytes (nothing may be sized by a guess).',
 'assumptions': ['MD4, HMAC-MD5, DES, hex, strings.ToUpper and the UTF-16 encoder are arbitrary functions in the theorems (laws assumed: '
                 'HMAC-MD5 returns 16 bytes, hex decodes back, DES ignores key parity bits); at run time the residual expressions are '
                 'evaluated with x/crypto/md4 and the Go standard library',
                 'nt.NTHash / lm.LMHash values (property C01) are inputs of the NTLMv1 model: the harness passes x/crypto MD4 of the '
                 "UTF-16 password and the library's LM hash",
                 'time.Now and crypto/rand values are read back from the produced blob (timestamp, client challenges)',
                 'UTF-16 of the domain is passed alongside where the code needs its length (AV pair of NTLMv2.Hash)',
                 'slices handed to the library have capacity = length'],
 'trusted': ['golang.org/x/crypto/md4, crypto/md5, crypto/hmac, crypto/des, encoding/hex, unicode/utf16, strings.ToUpper (residual '
             'primitives, never re-implemented)'],
 'technique': 'Lean 4 proofs (exhaustive decide per byte value, bit extensionality for the 7->8 regrouping, list algebra over residual '
              'expressions for an arbitrary interpretation of the primitives) about a hand model; model tied to the Go code by '
              "differential correspondence; the spec side is an independent MS-NLMP verifier evaluated with stdlib crypto on the library's "
              'own output; constants regenerated from the source on every run by a go/ast fact extractor (Gen/ConstsC02: the masks and '
              'shifts of createDesKey with its parity loop, the 16/8 guard and the 7/7/2+5 key slicing of desEncrypt, NTResponse, '
              'LMResponse and NTLMv1.Hash (21-byte padding), the 0101 blob header, reserved fields, AV id 2 and guard 0..0xFFFF, the '
              '11644473600 / 10^7 / 116444736000000000 epoch constants, the 7-bit groups of ParityAdjust) and proved equal to the ones the '
              'model uses by rfl/decide (20 theorems consts_match_model_*)',
 'level_text': 'parity_bit_spec, parity_adjust_spec (all 7-byte keys: key bits preserved in order, odd parity), '
               'createDesKey_eq_parityAdjust, v1_paths_agree, v1_eq_DESL (all 16-byte hashes, all challenges, any DES), v2_accepted / '
               'v2_accepted_ntlm (all credentials in any case and script, all challenges, any HMAC), v2_blob_wellformed / '
               'v2_blob_wellformed_ntlm / v2_response_blob, hashcat_reparse_verifies are proved in Lean for all inputs about a hand model '
               'of the patched code (five fix patches repair what the original tree violated). Constants tie: 20 theorems '
               'consts_match_model_* restate the model functions with the numbers regenerated from the current source (the masks and '
               'shifts of createDesKey with its parity loop, the 16/8 guard and the 7/7/2+5 key slicing of desEncrypt, NTResponse, '
               'LMResponse and NTLMv1.Hash (21-byte padding), the 0101 blob header, reserved fields, AV id 2 and guard 0..0xFFFF, the '
               '11644473600 / 10^7 / 116444736000000000 epoch constants, the 7-bit groups of ParityAdjust) in place of their literals; a '
               'changed constant in the source makes the theorem named after the function fail.',
 'level_note': 'Trusted: Lean kernel; axioms propext, Classical.choice, Quot.sound; the hand model is tied to the Go code by differential '
               'testing and, for the constants covered by consts_match_model_*, by regeneration from the source (control flow: '
               'differential testing only, bounded); the cryptographic primitives are opaque parameters (their stdlib implementations are '
               'used, not verified).'}
