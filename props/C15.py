# configuration of ./check for property C15 (see props_config.py)
CONFIG = {'gen': ['ConstsC15'],
 'rule': 'cases = boundary grid: 13 instants (1582-10-15, 1601-01-01, 1970-01-01, the int64-nanosecond limits 1677-09-21 / 2262-04-11, '
         '30828-09-14 = tick 0x7FFF..., 2400, 5236 = 2^60 UUID ticks, 60056 = 2^64 ticks, ...) x offsets -2..2 s x 14 sub-second values '
         '(0, 1, 99, 100, 101, ..., 999999999) through all nine time-taking ops; 27 tick counts (0, 1, epochs, 1677/2262 limits via both '
         'epochs, the uint64 wrap point of ticks*100, 2^60, 2^62, 2^63, 0x7FFF..., 0x8000..., 0xFFFF...) x offsets -2..2 through every '
         'tick-taking op incl. their decimal strings of both signs; second counts around 922337203685 (= max int64 / 1e7) and the type '
         'extremes; malformed decimal strings; then seeded random values biased to the windows 1601..30828, 1677..2262, 1582..5236, '
         'present day and outside every range; distinct = distinct input line; non-trivial = implementation output is a value',
 'assumptions': ['time.Unix / Time.Unix / Time.Nanosecond, strconv.ParseInt and fmt %d behave as modelled (checked differentially on every '
                 'run, not proved); harness times have |seconds| < 2^62 so that time.Time itself does not overflow',
                 'the repository tree has fixes/C15-*.diff applied (FILETIME, LDAP, keycredential, UUID conversions split into seconds and '
                 'remainder)'],
 'trusted': ['math/big as the independent oracle for the Lean spec ops'],
 'technique': 'Lean 4 proof over Int64/UInt64 machine arithmetic (wrap-around, truncating division) against unbounded-integer '
              'specifications (omega after reducing bmod/tdiv/tmod; ring-homomorphism argument for wrap-around that cancels; bit '
              'extensionality for the FILETIME halves); model tied to the Go code by differential correspondence; math/big oracle on the '
              'same inputs; constants regenerated from the source on every run by a go/ast fact extractor (Gen/ConstsC15: the 1601 and '
              '1582 epochs in ticks and seconds, the 10^7 and 100 tick scales, the FILETIME masks and shift, ParseInt base and width, the '
              'time.Date literals) and proved equal to the ones the model uses by rfl/decide (22 theorems consts_match_model_*)',
 'level_text': 'Proved in Lean about a hand-written model (Go int64/uint64 arithmetic incl. time.Unix normalisation) of the patched tree: '
               'filetime_getTime_exact, filetime_unix_exact, filetime_inverse_ticks, uuid_getTime_exact (all 2^64 tick values incl. both '
               "'never' sentinels), kc_newDateTime_partial (all non-zero uint64 ticks), ldap_timestamp_exact and ldap_duration_exact (all "
               '2^64 values through their decimal strings, int64_print_parse), filetime_fromTime_exact / ldap_timestamp_of_time_exact / '
               'kc_toBinary_exact / uuid_setTime_exact (every Go time whose tick count is representable, which contains 1601..30828, with '
               'sharpness witnesses), the inverse pairs (filetime_inverse_time, ldap_timestamp_inverse, ldap_duration_inverse_partial, '
               'kc_inverse_partial, uuid_inverse_time, spec_ticks_time_ticks, spec_time_ticks_time), FILETIME halves '
               '(filetime_toInt64_value, filetime_halves_inverse). Two findings are recorded with Lean predicates and counterexample '
               'theorems: ConvertSecondsToLDAPDuration overflows for |s| > 922337203685 (no 64-bit result exists, no error result), '
               'NewDateTime(0) returns the current time. Constants tie: 22 theorems consts_match_model_* restate the model functions with '
               'the numbers regenerated from the current source (the 1601 and 1582 epochs in ticks and seconds, the 10^7 and 100 tick '
               'scales, the FILETIME masks and shift, ParseInt base and width, the time.Date literals) in place of their literals; a '
               'changed constant in the source makes the theorem named after the function fail.',
 'level_note': 'Trusted: Lean kernel; axioms propext, Classical.choice, Quot.sound; the hand model is tied to the Go code by differential '
               'testing and, for the constants covered by consts_match_model_*, by regeneration from the source (control flow: '
               "differential testing only, bounded); Go's time package is observed only through Unix()/Nanosecond(). The theorems hold for "
               'the tree with fixes/C15-*.diff applied; the unpatched tree is wrong outside 1677..2262 for every conversion that went '
               'through nanoseconds and for pre-1970 times with sub-100ns parts (rounding towards zero). '
               'ConvertLDAPTimeStampToUnixTimeStamp keeps its clamp of pre-1970 ticks to 0 (part of the specification used); '
               'ConvertSecondsToLDAPDuration keeps the sign (its tests pin that).'}
