# configuration of ./check for property C11 (see props_config.py)
CONFIG = {'gen': ['ConstsC11'],
 'rule': 'cases = real loopback TCP pairs (net.Listen 127.0.0.1:0). send: the real Send writes to a peer that reads to EOF (payload '
         'lengths 0,1,..,0xFFFF,0x10000,0x1FFFF,0x20000,0x2FFFF,0x30000 and random); recv: a scripted peer writes RFC 1002 frames in a '
         'random segmentation (1-byte writes, pauses, MSS-sized and 64 KiB chunks) and closes after EVERY byte offset of short frame '
         'sequences and after chosen offsets of 0xFFFF/0x10000/0x1FFFF-byte frames, the real Receive is called until it fails; malformed '
         'streams (other message types, reserved flag bits, short bodies, garbage); e2e: transport A Sends payload lists, a relay '
         're-segments at random, transport B Receives; distinct = distinct input line; non-trivial = implementation output is a non-empty '
         'value',
 'assumptions': ['io.ReadFull returns exactly len(buf) bytes or an error (its documented contract)',
                 'conn.Write(p) hands all of p to the stream or returns an error',
                 "loopback TCP delivers the written bytes in order and reports the peer's close as EOF"],
 'trusted': ['io.ReadFull / net.Conn semantics (contract only)'],
 'technique': 'Lean 4 proof (induction over the frame list, arithmetic of the 17-bit length) about a hand model of Send/Receive over a '
              'byte stream; model tied to the Go code by differential correspondence through real loopback sockets; RFC 1002 oracle on the '
              'same inputs; constants regenerated from the source on every run by a go/ast fact extractor (Gen/ConstsC11: header size 4, '
              'type byte index and value, the 17-bit length mask, extension bit and shifts of Send and Receive, the maximum length) and '
              'proved equal to the ones the model uses by rfl/decide (7 theorems consts_match_model_*)',
 'level_text': 'Proved in Lean for all inputs about a hand model of NBTTransport.Send/Receive (with fixes/C11-17bit-length.diff): '
               'frame_roundtrip (every list of payloads of 0..0x1FFFF bytes is received as exactly that list), send_receive, '
               'oversize_refused (> 0x1FFFF is an error, nothing written), cut_is_error and cut_yields_prefix (a stream ending at any '
               'offset yields only whole sent messages, then an error), receive_total, frame_is_rfc1002, and readFullSeg_contract / '
               'segmentation_independent (the ReadFull loop over arbitrary TCP read sizes meets its contract). The model is tied to the '
               'code on every run through real loopback connections with scripted segmentations and cuts after every byte offset. '
               'Constants tie: 7 theorems consts_match_model_* restate the model functions with the numbers regenerated from the current '
               'source (header size 4, type byte index and value, the 17-bit length mask, extension bit and shifts of Send and Receive, '
               'the maximum length) in place of their literals; a changed constant in the source makes the theorem named after the '
               'function fail.',
 'level_note': 'PARTIAL for real TCP behaviour: only the byte-stream abstraction is modelled (in-order delivery, close = end of stream); '
               'resets, timeouts, partial writes and concurrent use of one transport are not. Trusted: Lean kernel; axioms propext, '
               'Classical.choice, Quot.sound; io.ReadFull / net.Conn contracts; the hand model is tied to the Go code by differential '
               'testing and, for the constants covered by consts_match_model_*, by regeneration from the source (control flow: '
               'differential testing only, bounded).'}
