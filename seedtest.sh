#!/bin/bash
# seedtest.sh <PID> <k> [extra check ids...]: confirm a seeded change (suite passes, demo fails with it / passes without),
# run ./check PID (and extras) against it, undo it, and file it under /verif/seeded/<PID>-<k>/
P=$1; k=$2; shift; shift
src=${SEEDSRC:-/tmp/m$P/out/$k}
dst=/verif/seeded/$P-${SEEDNAME:-$k}
[ -f $src/patch.diff ] || { echo "no patch $src"; exit 1; }
cd /repo; git status --short | grep -q . && { echo "/repo not clean"; exit 1; }
git apply --check $src/patch.diff || { echo "patch does not apply to /repo"; exit 1; }
git apply $src/patch.diff
suite=pass
(go build ./... && go test -mod=mod -vet=off -count=1 ./... > /tmp/me/seed_suite.log 2>&1) || suite=FAIL
mkdir -p $dst
cd /verif
# runs against a changed /repo rewrite evidence/*.json: keep what the last run on the unchanged tree wrote
rm -rf .build/evidence.keep; cp -r evidence .build/evidence.keep
trap 'rm -rf /verif/evidence; cp -r /verif/.build/evidence.keep /verif/evidence' EXIT
res=""
for c in $P "$@"; do
  ./check $c > /tmp/me/seed_$c.log 2>&1; rc=$?
  v=$(grep "^VIOLATION" /tmp/me/seed_$c.log | head -1)
  res="$res $c:rc=$rc"
  echo "check $c rc=$rc  $v"
  if [ -n "$v" ]; then rp=$(echo "$v" | sed 's/.*replay=\([^ ]*\).*/\1/'); cp "$rp" $dst/replay_$c.json 2>/dev/null; fi
  tail -3 /tmp/me/seed_$c.log | cut -c1-200 > $dst/check_$c.txt
done
git -C /repo checkout -- . ; git -C /repo clean -fdq
cp $src/patch.diff $dst/; cp $src/demo_test.go $dst/ 2>/dev/null; cp $src/meta.json $dst/meta.orig.json 2>/dev/null
echo "suite=$suite results:$res" | tee $dst/result.txt
