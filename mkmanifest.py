#!/usr/bin/env python3
"""Regenerates MANIFEST.json from props_config.py (claimed checks) and properties.jsonl (ids)."""
import json, os, subprocess
from props_config import PROPS, NOT_APPLICABLE
V = os.path.dirname(os.path.abspath(__file__))
ids = [json.loads(l)["id"] for l in open(os.path.join(V, "properties.jsonl")) if l.strip()]
hooks_commits = []
try:
    out = subprocess.run(["git", "-C", "/repo", "log", "--format=%H %s"], capture_output=True, text=True).stdout
    hooks_commits = [l.split()[0] for l in out.splitlines() if " verif-hook:" in l]
except Exception:
    pass
checks = []
for pid in ids:
    if pid not in PROPS:
        continue
    c = PROPS[pid]
    checks.append({
        "property_id": pid,
        "quick_cmd": "./check %s --tier quick" % pid,
        "thorough_cmd": "./check %s --tier thorough" % pid,
        "evidence_file": "/verif/evidence/%s.json" % pid,
        "replay_cmd_template": "./check %s --replay {path}" % pid,
        "engine": "lean4-proof+correspondence",
        "level_claimed": {"category": "proof", "text": c["level_text"], "design_ref": c.get("design_ref", "DESIGN.md §4 " + pid)},
        "level_note": c["level_note"],
        "technique": c["technique"],
    })
na = [{"property_id": pid, "reason": NOT_APPLICABLE.get(pid, "check not built yet in this session; see DESIGN.md §8 for the order of work")}
      for pid in ids if pid not in PROPS]
m = {
    "version": 1,
    "setup_cmd": "./check --setup",
    "hooks": {
        "guard": "verif",
        "enable": "go build -tags verif (the harness module /verif/tools replaces github.com/TheManticoreProject/Manticore => /repo)",
        "baseline_off_cmd": "cd /repo && go test -mod=mod -vet=off -count=1 ./...",
        "source_commits": hooks_commits,
        "add_only": True,
    },
    "engines": [{
        "name": "lean4-proof+correspondence", "path": "/verif/check",
        "serves_properties": [c["property_id"] for c in checks],
        "kind_free_text": "Lean 4 theorems about a model of the code (lake build + #audit of axioms + pinned theorem list); "
                          "model regenerated from /repo by tools/extract where marked, otherwise hand-written and tied by a "
                          "differential harness (tools/harness runs the real Go code, lean/Driver runs model and spec on the same lines)",
    }],
    "checks": checks,
    "not_applicable": na,
    "notes": "See DESIGN.md. KNOWN_FINDINGS.txt lists recorded findings and fixed defects.",
}
json.dump(m, open(os.path.join(V, "MANIFEST.json"), "w"), indent=1)
print("claimed:", [c["property_id"] for c in checks], "not claimed:", [n["property_id"] for n in na])
